"""C09 - incoming bytes are reassembled into exactly the sent messages under any chunking.

Proof: coq/Properties/C09.v (for every message list, every chunking of the peer's writes, every
interleaving of get_next_message/read_once calls, every kernel choice per recvmsg: exactly the sent
messages in order with their own descriptors; nothing lost after a time-out; the buffer never extends
past the current frame; completeness).  Tie: the extracted model (ocaml/c09, kernel choices = the
model's own `linux_choices`) and the real RecvConn (harness bin c09: a real DuplexConn, the peer
end of the socket writes the chosen chunks with sendmsg + SCM_RIGHTS) run on the same schedules and
must give the same result for every client operation.  Independently of the model, the property
predicate is evaluated on the implementation's own output for every schedule.  The socket
assumptions of the model (DESIGN.md section 4) are compared with the running kernel (`kprobe`).
"""
import glob
import os

import vlib

# descriptor counts around the old (10) and the real (253 = SCM_MAX_FD = size of the control buffer) cap;
# 254 cannot be attached to one sendmsg (the kernel refuses it), so 253 is the largest testable count
SPECIAL_FDS = [9, 10, 11, 20, 252, 253]


# ------------------------------------------------------------------ messages

def gen_specs(r, n, serial0, thorough):
    """message specs for the harness `build` command: typ,bo,arraylen,nfds,serial,tag[,u]
    (u: descriptors attached but not referenced by the body - the body may be empty)"""
    specs = []

    def add(typ, bo, alen, nfds, unref):
        i = len(specs)
        specs.append("%s,%s,%d,%d,%d,%s%s" % (typ, bo, alen, nfds, serial0 + i, "abcdefgh"[i % 8] * (1 + i % 3), ",u" if unref else ""))

    # guaranteed members of the pool: every special descriptor count, descriptors on an EMPTY body,
    # descriptors on a body that does not mention them
    for k, nfds in enumerate(SPECIAL_FDS + ([100] if thorough else [])):
        add(r.choice("cs"), "lB"[k % 2], r.choice([-1, 0, 17]), nfds, k % 3 == 2)
    add("s", "l", -1, 1, True)
    add("c", "B", -1, 3, True)
    add("r", "l", -1, 2, True)
    add("e", "B", 40, 2, True)
    add("s", "B", 0, 1, True)
    while len(specs) < n:
        typ = r.choice("cccssre")
        bo = r.choice("lB")
        k = r.random()
        if k < 0.2:
            alen = -1
        elif k < 0.4:
            alen = r.randrange(0, 8)
        else:
            alen = r.randrange(0, 297)
        k = r.random()
        if k < 0.55:
            nfds = 0
        elif k < 0.94:
            nfds = r.randrange(1, 4)
        else:
            nfds = r.choice(SPECIAL_FDS)
        add(typ, bo, alen, nfds, nfds > 0 and r.random() < 0.3)
    return specs


def gen_big_specs(r, thorough, serial0):
    """bodies beyond 64 KiB (a length that does not fit 16 bits) and around 200 KiB"""
    sizes = [65536 + r.randrange(0, 24), 204800 + r.randrange(0, 64)]
    if thorough:
        sizes += [65535 - 40, 65536, 65537, 70000, 131072 + 5, 150001, 262144 + 9]
    return ["%s,%s,%d,%d,%d,big" % (r.choice("cs"), r.choice("lB"), n, r.choice([0, 0, 1, 2]), serial0 + i) for i, n in enumerate(sizes)]


def gen_bighdr_specs(r, thorough, serial0):
    """messages whose ARRAY OF HEADER FIELDS is 64 KiB or longer (an object path of 64 KiB + k / about 70000 / in the
    thorough tier up to 1 MiB characters): header_fields_len does not fit 16 bits, the body is short or empty"""
    sizes = [65536 + r.randrange(0, 24), 70000 + r.randrange(0, 3000)]
    if thorough:
        sizes += [65535 - 60, 65536 - 30, 65536, 131072 + 3, 200001, (1 << 20) + 5]
    return ["%s,%s,%d,%d,%d,hdr,p%d" % (r.choice("cs"), r.choice("lB"), r.choice([-1, 0, 5, 296]), r.choice([0, 0, 1, 2]), serial0 + i, n)
            for i, n in enumerate(sizes)]


# ------------------------------------------------------------------ frames of 64 .. 128 MiB (no model run)

MAXA = 1 << 26      # MAX_ARRAY_LEN: the longest array - NOT a limit of the body, which may hold several arrays
MAXM = 1 << 27      # MAX_MESSAGE_LEN


def gen_giants(r, thorough):
    """lines for the harness command `giant`: a message whose body is longer than 2^26 bytes (two or three byte arrays,
    or one array of exactly 2^26 bytes) up to a frame of exactly MAX_MESSAGE_LEN bytes, a small message behind it and
    sometimes one in front; written by a peer thread in pieces of 192 KiB .. 8 MiB with cuts inside the fixed header,
    one byte before the end of the frame and inside the message behind; received with Infinite calls"""
    shapes = []
    a = r.randrange(1 << 25, (1 << 25) + (1 << 21))
    shapes.append(("two arrays, body just above 2^26", "%d.%d" % (a, MAXA + r.randrange(-8, 64) - a)))
    shapes.append(("one array of 2^26 - k bytes, k < 4 (body = 4 + array)", "%d" % (MAXA - r.randrange(0, 4))))
    shapes.append(("frame of MAX_MESSAGE_LEN - k bytes, k <= 8", "%d.F%d" % (MAXA - r.randrange(0, 9), r.choice([0, 0, 1, 7, 8]))))
    if thorough:
        shapes.append(("frame of exactly MAX_MESSAGE_LEN bytes", "%d.F0" % MAXA))
        shapes.append(("frame of MAX_MESSAGE_LEN - k bytes, k <= 8", "%d.F1" % (MAXA - 5)))
        shapes.append(("frame of MAX_MESSAGE_LEN - k bytes, k <= 8", "5.%d.F8" % (MAXA - 100)))
        shapes.append(("one array of 2^26 - k bytes, k < 4 (body = 4 + array)", "%d" % MAXA))
        for _ in range(6):
            x = r.randrange(1 << 24, MAXA)
            y = r.randrange(MAXA - x, min(MAXA, MAXM - x - 8192))
            z = r.randrange(0, min(MAXA, MAXM - x - y - 4096))
            shapes.append(("three arrays, body between 2^26 and 2^27", "%d.%d.%d" % (x, y, z)))
    out = []
    for k, (what, lens) in enumerate(shapes):
        specs = []
        if r.random() < 0.5:
            specs.append("%s,%s,%s,%d,fr" % (r.choice("cs"), r.choice("lB"), r.choice(["-", "3", "0.17"]), 7000 + 3 * k))
        g = len(specs)
        specs.append("%s,%s,%s,%d,gi" % (r.choice("cs"), r.choice("lB"), lens, 7001 + 3 * k))
        specs.append("%s,%s,%s,%d,be" % (r.choice("cs"), r.choice("lB"), r.choice(["-", "5", "0.300"]), 7002 + 3 * k))
        cuts = ["%ds%d" % (g, r.choice([1, 3, 4, 7, 8, 11, 12, 13, 15, 16, 17])), "%de%d" % (g, r.choice([1, 1, 2, 8])),
                "%ds%d" % (g, r.randrange(18, MAXA)), "%ds%d" % (g + 1, r.randrange(1, 40))]
        if r.random() < 0.5:
            cuts.append("%ds1" % g)
        if r.random() < 0.3:
            # no write boundary between the giant and the message behind it
            chunk = r.choice([(1 << 20) + 1, 1000003, 3 * 65536 + 1])
        else:
            cuts.append("%de0" % g)
            chunk = r.choice([1 << 20, 4 << 20, 8 << 20, 1000003, 3 * 65536])
        ops = []
        for _ in specs:
            if r.random() < 0.4:
                ops.append("j")
            ops.append("i")
        ops.append("g")
        out.append((what, "giant %s %s %d %s" % ("|".join(specs), ".".join(cuts), chunk, ",".join(ops))))
    return out


def giant_verdict(line, res):
    """None when the harness result of a `giant` line satisfies C09, else what fails"""
    if res == "HANG":
        return "a receive call never returned although the peer wrote every byte of every message"
    if res.startswith("PANIC"):
        return "a receive call panicked although the peer only wrote valid messages"
    sent, got = res.split(" ")
    sent = sent[len("sent="):].split("|")
    got = [] if got == "got=-" else got[len("got="):].split(",")
    ops = line.split(" ")[4].split(",")
    k = 0
    for n, op in enumerate(ops):
        if n >= len(got):
            return "the receive calls stopped after %d of %d" % (len(got), len(ops))
        t = got[n]
        if t.startswith("E") or t.startswith("PANIC"):
            return ("a receive call failed (%s) on message %d (body of %s bytes) although the peer only wrote valid messages; "
                    "%d of %d messages delivered" % (t.split(":", 1)[-1][:60] if ":" in t else t[:60], k, sent[k].split(";")[13] if k < len(sent) else "?", k, len(sent)))
        if op == "j":
            if t != "K":
                return "read_once(Infinite) returned %s while a message was still on its way" % t[:40]
        elif op == "i":
            if t == "T":
                return "get_next_message(Infinite) reported a time-out"
            if not t.startswith("M"):
                return "get_next_message(Infinite) returned %s" % t[:40]
            if t[1:].rsplit(";", 1)[0] != sent[k]:
                return "message %d delivered with a different header or body length than sent" % k
            if not t.endswith(";eq"):
                return "message %d delivered with body bytes that differ from the bytes sent" % k
            k += 1
        else:
            if t.startswith("M"):
                return "more messages delivered than were sent"
            if t != "T":
                return "the call after the last message did not report a time-out"
    if k < len(sent):
        return "only %d of %d messages delivered" % (k, len(sent))
    return None


def run_giants(ctx, exe, cases):
    import subprocess
    for what, line in cases:
        # one process per case: at most one frame of up to 128 MiB (and the receive buffer for it) in memory at a time
        try:
            rc, out, err = vlib.run_lines(exe, [], [line], timeout=600)
        except subprocess.TimeoutExpired:
            rc, out, err = 0, ["HANG"], ""
        if rc != 0 or len(out) != 1:
            ctx.tie_broken("harness c09 crashed on a frame of more than 64 MiB", "%s\nrc=%s %s" % (line, rc, err[-1500:]))
            continue
        res = out[0]
        if res.startswith("SETUPFAIL"):
            ctx.extra["not_evaluated"] = ctx.extra.get("not_evaluated", 0) + 1
            ctx.count("set-up failed (connect_to_bus / auth handshake): not a statement about the receive path")
            continue
        ctx.case(line, nontrivial=True, sample={"kind": "giant: " + what, "line": line, "results": res.split(" got=")[-1][:300]})
        ctx.count("kind:giant (body above 2^26 bytes; property predicate only, model skipped)")
        ctx.count("giant: " + what)
        verdict = giant_verdict(line, res)
        if verdict is not None:
            ctx.disagreements_checked += 1
            ctx.violation(verdict, {"giant": line, "shape": what, "impl": res[:3000]})


class Msg:
    def __init__(self, spec, frame_hex, canon):
        self.spec = spec
        self.frame = frame_hex
        self.canon = canon
        self.n = len(frame_hex) // 2
        f = canon.split(";")
        self.serial = int(f[2])
        self.nfds = int(f[12])
        self.body = f[13]


def build_pool(exe, specs):
    rc, out, err = vlib.run_lines(exe, [], ["build " + "|".join(specs)], timeout=300)
    if rc != 0 or len(out) != 1 or out[0].startswith("PANIC"):
        raise vlib.BrokenTie("harness c09 could not build the message pool", (out[0] if out else "") + err[-2000:])
    parts = out[0].split("|")
    return [Msg(s, p.split("#")[0], p.split("#")[1]) for s, p in zip(specs, parts)]


# ------------------------------------------------------------------ schedules

class Sched:
    def __init__(self, msgs, events, kind):
        self.msgs = msgs
        self.events = events          # list of tokens
        self.kind = kind

    def line(self):
        stream = "".join(m.frame for m in self.msgs) or "-"
        nf = ".".join(str(m.nfds) for m in self.msgs) or "-"
        return "run %s %s %s" % (stream, nf, ",".join(self.events))

    def cuts_inside(self):
        """does some write boundary fall strictly inside a frame"""
        bounds = set()
        p = 0
        for m in self.msgs:
            p += m.n
            bounds.add(p)
        p = 0
        for e in self.events:
            if e[0] == "w":
                p += int(e[1:].split("f")[0])
                if p not in bounds:
                    return True
        return False


def writes_for(msgs, cuts):
    """write events for the concatenated stream cut at the given absolute positions; every frame that
    carries descriptors starts a write of its own, with its descriptors attached to that write (the
    first byte of the frame)"""
    starts = {}
    p = 0
    for i, m in enumerate(msgs):
        if m.nfds > 0:
            starts[p] = i
        p += m.n
    total = p
    pts = sorted(set(c for c in cuts if 0 < c < total) | set(s for s in starts if s > 0) | {total})
    evs = []
    prev = 0
    for c in pts:
        if c == prev:
            continue
        evs.append("w%d%s" % (c - prev, ("f%d" % starts[prev]) if prev in starts else ""))
        prev = c
    return evs


CLIENT_OPS = ("g", "t", "T", "i", "r", "z", "Z", "R", "j", "q")


def client(r, choices):
    """one client operation as a list of events.  `t` (Duration 1 ms) is followed by a `g`: should the clock
    of a 1 ms call run out before it has read what is queued, the non-blocking call reads it, so what later
    operations see never depends on timing.  `x` stands for a call with a real deadline / none: Duration(5 s)
    or Infinite, which the model keeps only where a whole message is already queued."""
    c = r.choice(choices)
    if c == "t":
        return ["t", "g"]
    if c == "x":
        return [r.choice(["T", "i"])]
    if c == "z":           # get_next_message whose deadline has passed already: Duration(0), Duration(1 ns)
        return [r.choice(["z", "z", "Z"])]
    if c == "y":           # read_once with a deadline of 5 s / none (kept only where a read can be made at once) / 1 ns
        return [r.choice(["R", "j", "q"])]
    return [c]


def interleave(r, writes, nmsgs, style):
    """client operations between the writes; always ends with enough get_next calls to drain"""
    evs = []
    since = 0
    for w in writes:
        evs.append(w)
        since += 1
        if style == "after_each":
            evs += client(r, ["g", "g", "r", "t", "x", "z", "y"])
            since = 0
        elif style == "dense":
            if r.random() < 0.6:
                for _ in range(r.choice([1, 1, 2, 3])):
                    evs += client(r, ["g", "g", "r", "r", "t", "x", "z", "z", "y"])
                since = 0
        elif style == "sparse":
            if r.random() < 0.08 or since >= 120:
                for _ in range(r.choice([1, 2, 4])):
                    evs += client(r, ["g", "r", "r", "t", "x", "z", "y"])
                since = 0
        elif style == "big":
            # large writes: drain often enough that the peer's send buffer never fills
            if since >= r.choice([1, 2, 3, 4]):
                evs += client(r, ["g", "g", "r", "t", "x"])
                since = 0
        elif style == "reads":
            for _ in range(r.choice([0, 1, 2, 3])):
                evs += client(r, ["r", "r", "r", "y", "z"])
            if r.random() < 0.2:
                evs.append("g")
            since = 0
        elif style == "none":
            if since >= 120:
                evs.append("g")
                since = 0
    if r.random() < 0.3:
        evs += client(r, ["x", "t"])
    evs += ["g"] * (nmsgs + 1)
    return evs


def backlog(r, msgs, plain=False):
    """all frames written before the client reads anything: a few cuts near the headers, otherwise writes of
    64 KiB .. 1 MiB (a write that carries descriptors stays below 16000 bytes so that it is one kernel segment),
    then one call per message.  plain: only calls whose result does not need the model's plan."""
    total = sum(m.n for m in msgs)
    cuts, p = set(), 0
    for m in msgs:
        if m.nfds:
            cuts.add(p + min(m.n - 1, r.randrange(16, 16000)))
        if r.random() < 0.5:
            cuts.add(p + r.choice([1, 7, 12, 16, 17]))
        p += m.n
    p = 0
    while p < total:
        p += r.choice([65536, 100000, 1 << 18, 1 << 20, r.randrange(65536, 1 << 20)])
        cuts.add(p)
    evs = writes_for(msgs, cuts)
    if not plain and r.random() < 0.5:
        evs += client(r, ["r", "y", "z"])
    for _ in msgs:
        evs += ["g"] if plain else client(r, ["g", "x", "x", "g"])
    evs += ["g"] * (len(msgs) + 1)
    return evs


def gen_schedules(r, pool, thorough, short):
    out = []
    # (a) every 2-cut of one short message, descriptors or not
    n = short.n
    pairs = [(a, b) for a in range(1, n) for b in range(a + 1, n)]
    if not thorough:
        # every single cut position, plus a third of the pairs (all pairs in the thorough tier)
        pairs = [p for k, p in enumerate(pairs) if k % 3 == r.randrange(3) or p[1] - p[0] == 1]
    for a in range(1, n):
        out.append(Sched([short], interleave(r, writes_for([short], [a]), 1, "after_each"), "1cut"))
    for a, b in pairs:
        out.append(Sched([short], interleave(r, writes_for([short], [a, b]), 1, r.choice(["after_each", "reads", "dense"])), "2cut"))
    # (b) all 1-byte chunking
    for _ in range(120 if thorough else 8):
        k = r.choice([1, 1, 2, 3])
        msgs = pick_msgs(r, pool, k, maxlen=260)
        total = sum(m.n for m in msgs)
        out.append(Sched(msgs, interleave(r, writes_for(msgs, range(1, total)), k, r.choice(["sparse", "sparse", "none", "dense"])), "1byte"))
    # (c) random compositions
    for _ in range(120000 if thorough else 1200):
        k = r.choice([1, 2, 2, 3, 4, 5])
        msgs = pick_msgs(r, pool, k)
        total = sum(m.n for m in msgs)
        style = r.random()
        if style < 0.3:
            ncuts = r.randrange(0, 4)
        elif style < 0.8:
            ncuts = r.randrange(2, 14)
        else:
            ncuts = r.randrange(10, 60)
        cuts = set(r.randrange(1, total) for _ in range(ncuts))
        # boundaries near the fixed header / length fields of some message
        p = 0
        for m in msgs:
            if r.random() < 0.5:
                cuts.add(p + r.choice([1, 3, 4, 5, 7, 8, 11, 12, 13, 15, 16, 17]))
            if r.random() < 0.2:
                cuts.add(p + m.n - 1)
            p += m.n
        out.append(Sched(msgs, interleave(r, writes_for(msgs, cuts), k, r.choice(["dense", "dense", "reads", "after_each", "none"])), "random"))
    # (d) whole messages back to back in one write where no descriptors force a cut
    for _ in range(400 if thorough else 40):
        k = r.choice([2, 3, 5])
        msgs = pick_msgs(r, pool, k)
        out.append(Sched(msgs, interleave(r, writes_for(msgs, []), k, r.choice(["none", "reads"])), "glued"))
    return out


def pick_msgs(r, pool, k, maxlen=None):
    cands = [m for m in pool if maxlen is None or m.n <= maxlen]
    return r.sample(cands, k)


# ------------------------------------------------------------------ the property on the implementation's own output

def property_verdict(tokens, msgs, events=None):
    """None when the implementation's results satisfy C09 on this schedule (which always ends with all
    bytes written and more get_next calls than messages), else what fails"""
    want = ["M%s~%s" % (m.canon, "+".join("%d.%d" % (i, j) for j in range(m.nfds))) for i, m in enumerate(msgs)]
    got = [t for t in tokens if t.startswith("M")]
    if events is not None:
        # a call with a real deadline (5 s) or none at all, made when every byte of the next message had already
        # been written, has to hand that message out
        ends, p = [], 0
        for m in msgs:
            p += m.n
            ends.append(p)
        written = delivered = k = 0
        for ev in events:
            if ev[0] == "w":
                written += int(ev[1:].split("f")[0])
                continue
            if k >= len(tokens):
                break
            t = tokens[k]
            k += 1
            if ev in ("T", "i") and delivered < len(ends) and written >= ends[delivered] and not t.startswith("M"):
                return "get_next_message(%s) returned %s although all bytes of the next message were already queued" % (
                    "Duration 5 s" if ev == "T" else "Infinite", "a time-out" if t == "T" else t[:40])
            if t.startswith("M"):
                delivered += 1
    for t in tokens:
        if t.startswith("E") or t.startswith("PANIC"):
            return "a receive call failed (%s) although the peer only wrote valid messages" % t.split(":")[0][:60]
    for k, g in enumerate(got):
        if k >= len(want):
            return "more messages delivered than were sent"
        if g != want[k]:
            gc, gf = g[1:].rsplit("~", 1)
            wc, wf = want[k][1:].rsplit("~", 1)
            if gc == wc:
                return "message %d delivered with descriptors [%s] instead of its own [%s]" % (k, gf, wf)
            if g in want:
                return "message delivered out of order or twice"
            return "message %d delivered with a different header or body than sent" % k
    if len(got) < len(want):
        return "only %d of %d messages delivered although all bytes were written and get_next_message was called %d more times" % (
            len(got), len(want), len(want) + 1)
    if tokens and tokens[-1] != "T":
        return "the call after the last message did not report a time-out"
    return None


def expected_from_model(model_tokens, msgs):
    """translate the model's tokens (M<serial>;<body>~labels) to the harness vocabulary; returns
    (tokens, {index of client op: the op it must be replaced by}, problem)"""
    by_serial = {m.serial: m for m in msgs}
    out, bang = [], {}
    for k, t in enumerate(model_tokens):
        if t.startswith("!"):          # a T / i (R / j) call that would have to wait: make it a non-blocking one
            bang[k] = "!"
            t = t[1:]
        elif t.startswith("%"):        # Duration(0)/(1 ns) met a partly filled buffer (counted, nothing to change)
            bang[k] = "%"
            t = t[1:]
        elif t.startswith("^"):        # a 1 ms call that finds a whole message on the socket: give it a real deadline
            bang[k] = "T"
            t = t[1:]
        if t.startswith("M"):
            head, labels = t[1:].rsplit("~", 1)
            serial, body = head.split(";")
            m = by_serial.get(int(serial))
            if m is None:
                return None, None, "model delivered a message with unknown serial " + serial
            if m.body != body:
                return None, None, "model splits frame %s into a different body than the crate's builder" % serial
            out.append("M%s~%s" % (m.canon, labels))
        else:
            out.append(t)
    return out, bang, None


NOMODEL = ["<no model run: only the property predicate is evaluated>"]


def run_batch(ctx, exe, drv, scheds, model=True):
    lines = [s.line() for s in scheds]
    if model:
        # the extracted list functions are not tail recursive: frames of several hundred KiB need a deep stack
        ok, mout, err = vlib.par_run_lines("/bin/sh", ["-c", "ulimit -s unlimited 2>/dev/null || ulimit -s 4000000; exec " + drv], lines)
        if not ok:
            ctx.tie_broken("extracted model driver c09 crashed", err)
            return
    else:
        mout = []
    final = [] if model else list(scheds)
    exp = [] if model else [NOMODEL] * len(scheds)
    for s, mo in zip(scheds, mout):
        toks = [] if mo == "-" else mo.split(",")
        e, bang, prob = expected_from_model(toks, s.msgs)
        if prob:
            ctx.tie_broken("correspondence: " + prob, s.line()[:3000])
            exp.append(None)
            final.append(s)
            continue
        if bang:
            k = -1
            evs = list(s.events)
            for i, ev in enumerate(evs):
                if ev in CLIENT_OPS:
                    k += 1
                    if k in bang:
                        if bang[k] == "%":
                            ctx.count("expired deadline (Duration 0 / 1 ns) on a partly filled buffer")
                        elif bang[k] == "!":
                            evs[i] = "r" if ev in ("R", "j") else "g"
                        else:
                            evs[i] = bang[k]
            s = Sched(s.msgs, evs, s.kind)
        exp.append(e)
        final.append(s)
    lines = [s.line() for s in final]
    import subprocess
    try:
        ok, iout, err = vlib.par_run_lines(exe, [], lines, timeout=900)
    except subprocess.TimeoutExpired:
        ctx.tie_broken("harness c09 did not finish within 900 s although every case has its own deadline", "")
        return
    if not ok:
        ctx.tie_broken("harness c09 crashed", err)
        return
    for s, e, io in zip(final, exp, iout):
        if e is None:
            continue
        if io.startswith("SETUPFAIL"):
            ctx.extra["not_evaluated"] = ctx.extra.get("not_evaluated", 0) + 1
            ctx.count("set-up failed (connect_to_bus / auth handshake): not a statement about the receive path")
            continue
        if io == "SKIPPED":
            # the harness process had three hanging cases before this one and gave up on the rest of its share
            ctx.extra["not_evaluated"] = ctx.extra.get("not_evaluated", 0) + 1
            ctx.count("schedules skipped after three hanging cases in one harness process")
            continue
        if io == "HANG":
            # no operation of a schedule waits for bytes that are not already queued (g, r: non-blocking; t: 1 ms;
            # T, i only when the whole message is there), so a case that does not finish within its deadline
            # (3 s) means some receive call never returned.  It counts after a second run, alone, with 10 s.
            ctx.count("cases that exceeded their 3 s deadline")
            if ctx.extra.get("hang_reruns", 0) >= 2:
                ctx.extra["not_evaluated"] = ctx.extra.get("not_evaluated", 0) + 1
                continue
            ctx.extra["hang_reruns"] = ctx.extra.get("hang_reruns", 0) + 1
            rc, again, _ = vlib.run_lines(exe, [], [s.line()], timeout=120, env={"C09_CASE_MS": "10000"})
            io = again[0] if rc == 0 and len(again) == 1 else "HANG"
            if io == "HANG":
                ctx.disagreements_checked += 1
                ctx.violation("a receive call never returned (schedule not finished after 10 s) although every blocking call of the "
                              "schedule is made only when the whole message it waits for is already queued; the model delivers: %s"
                              % ",".join(t[:1] if t.startswith("M") else t for t in e)[:300],
                              {"line": s.line(), "canons": [m.canon for m in s.msgs], "specs": [m.spec for m in s.msgs],
                               "lens": [m.n for m in s.msgs], "impl": ["HANG"], "model": [t[:200] for t in e]})
                continue
        if io.startswith("SCHEDERR"):
            ctx.count("schedule not executable (peer write would block)")
            continue
        toks = [] if io == "-" else io.split(",")
        nontrivial = s.cuts_inside() or any(m.nfds for m in s.msgs)
        import hashlib
        ctx.case(hashlib.blake2b(("".join(m.frame for m in s.msgs) + "|" + ",".join(s.events)).encode(), digest_size=12).hexdigest(), nontrivial=nontrivial,
                 sample={"kind": s.kind, "messages": [m.spec for m in s.msgs], "events": ",".join(s.events)[:400],
                         "results": [t[:1] if t.startswith("M") else t for t in toks]} if s.kind in ("random", "2cut") and len(s.events) < 40 else None)
        ctx.count("kind:" + s.kind)
        ctx.count("msgs:%d" % len(s.msgs))
        ctx.count("fds:" + ("none" if not any(m.nfds for m in s.msgs) else ("boundary" if any(m.nfds >= 9 for m in s.msgs) else "1-3")))
        unref = [m for m in s.msgs if m.nfds and m.spec.endswith(",u")]
        ctx.count("messages with descriptors on an empty body", sum(1 for m in unref if m.body == "-"))
        ctx.count("messages with descriptors the body does not mention", len(unref))
        for m in s.msgs:
            if m.nfds >= 9:
                ctx.count("descriptor count %d" % m.nfds)
            if len(m.body) // 2 >= 65536:
                ctx.count("messages with a body of 64 KiB or more")
            if m.n - (0 if m.body == "-" else len(m.body) // 2) >= 65536 + 16:
                ctx.count("messages with an array of header fields of 64 KiB or more")
        ctx.count("ops:t (Duration 1 ms: nothing queued, or only part of a message)", sum(1 for ev in s.events if ev == "t"))
        ctx.count("ops:T (Duration 5 s, whole message queued)", sum(1 for ev in s.events if ev == "T"))
        ctx.count("ops:i (Infinite, whole message queued)", sum(1 for ev in s.events if ev == "i"))
        ctx.count("ops:r", sum(1 for ev in s.events if ev == "r"))
        ctx.count("ops:g", sum(1 for ev in s.events if ev == "g"))
        ctx.count("results:T", sum(1 for t in toks if t == "T"))
        verdict = property_verdict(toks, s.msgs, s.events)
        total = sum(m.n for m in s.msgs)
        if total <= 300000:
            data = {"line": s.line(), "canons": [m.canon for m in s.msgs]}
        else:
            # frames of MiB size are not written into the replay file: they are rebuilt from the specs
            data = {"events": ",".join(s.events)}
        data.update({"specs": [m.spec for m in s.msgs], "lens": [m.n for m in s.msgs],
                     "impl": [t[:200] for t in toks], "model": [t[:200] for t in e]})
        for ev in ("z", "Z", "R", "j", "q"):
            ctx.count("ops:" + {"z": "z (get_next_message, Duration 0)", "Z": "Z (get_next_message, Duration 1 ns)",
                                "R": "R (read_once, Duration 5 s, a read can be made at once)",
                                "j": "j (read_once, Infinite, a read can be made at once)", "q": "q (read_once, Duration 1 ns)"}[ev],
                      sum(1 for x in s.events if x == ev))
        if total >= 1 << 20:
            ctx.count("frames of 1 MiB or more" + ("" if e is not NOMODEL else " (property predicate only, no model run)"))
        if verdict is not None:
            ctx.disagreements_checked += 1
            ctx.violation(verdict, data)
        elif e is not NOMODEL and [("E" if t.startswith("E") else t) for t in toks] != [("E" if t.startswith("E") else t) for t in e]:
            ctx.disagreements_checked += 1
            diff = [k for k in range(max(len(toks), len(e))) if k >= len(toks) or k >= len(e) or toks[k] != e[k]]
            ctx.tie_broken("correspondence: implementation and model differ on a schedule on which the property itself is not violated "
                           "(read sizes / time-out placement)", "first differing op %s\n%s" % (diff[:3], str(data)[:3000]))


# ------------------------------------------------------------------ the socket assumptions against the running kernel

def kprobe_cases(r, n):
    out = []
    for _ in range(n):
        segs = []
        for _ in range(r.randrange(1, 7)):
            ln = r.choice([1, 1, 2, 3, 5, 8, 16, 40])
            nf = r.choice([0, 0, 0, 1, 2, 3])
            segs.append("%s:%d" % ("".join("%02x" % r.randrange(256) for _ in range(ln)), nf))
        reqs = [r.choice([0, 1, 1, 2, 3, 4, 7, 8, 16, 60, 200]) for _ in range(r.randrange(1, 12))]
        out.append("kprobe %s %s" % (";".join(segs), ".".join(map(str, reqs))))
    return out


def load_corpus(pool_by_line):
    out = []
    for f in sorted(glob.glob(os.path.join(vlib.VERIF, "corpus", "C09", "*.case"))):
        for line in open(f):
            line = line.strip()
            if line and not line.startswith("#"):
                out.append(line)
    return out


class RawMsg(Msg):
    def __init__(self, frame, canon, nfds):
        self.spec = "corpus"
        self.frame = frame
        self.canon = canon
        self.n = len(frame) // 2
        f = canon.split(";")
        self.serial = int(f[2])
        self.nfds = nfds
        self.body = f[13]


def sched_from_case(line):
    """corpus line: <frame#canon|frame#canon...> <events>"""
    ms, evs = line.split(" ")
    msgs = []
    for p in ms.split("|"):
        fr, ca = p.split("#")
        msgs.append(RawMsg(fr, ca, int(ca.split(";")[12])))
    return Sched(msgs, evs.split(","), "corpus")


def run(ctx):
    thorough = ctx.tier == "thorough"
    ctx.rule = ("schedule = 1-5 messages built by the crate's MessageBuilder (bodies 0-300 bytes; a separate stream with bodies of "
                "64 KiB + k and about 200 KiB; 0-3 descriptors on any message, referenced by `h` values in the body or merely "
                "attached - also to an EMPTY body; descriptor counts 9/10/11/20 and 252/253 = the kernel's per-sendmsg limit, each "
                "count in at least three schedules) x a chunking of the peer's writes (every single cut and %s 2-cuts of one short "
                "message; all 1-byte; random compositions with cuts forced into fixed header/length fields; glued messages; large "
                "bodies in writes of up to 16000 bytes) x client operations get_next_message(Nonblock), read_once(Nonblock), "
                "get_next_message(Duration 1 ms) where nothing or only part of a message is queued (always followed by a non-blocking "
                "call so that later results cannot depend on when the clock ran out), get_next_message(Duration 5 s) and "
                "get_next_message(Infinite) where the model says a whole message is already queued, get_next_message(Duration 0 / 1 ns) "
                "(the deadline has passed at the first look at the clock: the model's time-up branch, mostly on a partly filled buffer), "
                "read_once with Duration(5 s) / Infinite where a read can be made at once and with Duration(1 ns), interleaved with the "
                "writes; plus backlogs (several hundred KiB .. 2 MiB written before the client reads, so that single reads exceed 64 KiB) "
                "and, in the thorough tier, frames up to 32 MiB (above 4 MiB against the property predicate only); messages whose "
                "array of header fields is 64 KiB or longer (object path of 64 KiB + k, about 70000, thorough: up to 1 MiB characters) "
                "chunked, cut around the fixed header and around byte 65536, and as a backlog; bodies ABOVE 2^26 bytes (two byte arrays "
                "summing to just over 2^26; one array of 2^26 - k bytes; a frame of MAX_MESSAGE_LEN - k bytes, k <= 8; thorough: exactly "
                "MAX_MESSAGE_LEN and random bodies between 2^26 and 2^27) generated inside the harness from a short descriptor, written "
                "by a peer thread in pieces of 192 KiB - 8 MiB with cuts in the fixed header, before the last byte and inside the next "
                "message, received with get_next_message(Infinite) / read_once(Infinite), judged by the property predicate alone (every "
                "message delivered in order, header fields and body bytes equal, then a time-out; model skipped); "
                "every schedule ends with all bytes written and one more get_next than messages. non-trivial = some write boundary "
                "lies strictly inside a frame or some message carries descriptors; distinct = distinct (frames, event list)") % (
                    "all" if thorough else "a third of the")
    ctx.trusted = ["Coq 8.16.1 kernel (coqc), no native_compute", "extraction with ExtrOcamlBasic only, ocamlfind ocamlopt 4.13.1",
                   "ocaml/c09/driver.ml and harness/src/bin/c09.rs (I/O wrappers, peer and descriptor bookkeeping)",
                   "the decoder of the header-field array is abstract in the model (C06's subject); the harness compares all decoded header fields of delivered messages with those of the built ones"]
    ctx.assumptions = ["the sender attaches the descriptors of a message to the sendmsg that carries the first byte of its frame (rustbus SendConn and libdbus do)",
                       "AF_UNIX stream socket as in DESIGN.md section 4: recvmsg returns 1..min(request, queued) bytes, rights are handed out with the first byte of their segment; compared with the running kernel by the kprobe cases of this run",
                       "the peer does not close the connection; messages carry at most 253 descriptors (kernel limit per sendmsg = size of the control buffer)",
                       "usize is 64 bit",
                       "in refill_buffer `stream.set_nonblocking(false)?` and `stream.set_read_timeout(old_timeout)?` run after recvmsg and before `msg?`: if one of them failed after a successful recvmsg, the bytes already written into the buffer and the received control messages would be dropped (filled is not advanced, descriptors are not collected). These fcntl/setsockopt calls do not fail on a healthy socket; neither the model nor the harness covers their failure (same shape as the C10 assumption about the send side)",
                       "frames above 2 MiB (quick) / 4 MiB (thorough) are checked against the property predicate only, the extracted model being too slow for them (counted in the input distribution); this includes every frame with a body above 2^26 bytes (kind:giant)",
                       "an announced length above the limits (message > 2^27, header fields > 2^26) ending in a prompt error rather than a wait is C18's subject (checks/c18.py drives get_next_message with such announcements); C09 sends valid messages only"]
    ctx.try_proof()
    exe = vlib.harness_build(["c09"])["c09"]
    vlib.coq_make(["Conn/Recv.vo"])
    drv = vlib.ocaml_build("c09")

    r = ctx.sub_rng("gen")
    # corpus first
    corpus = [sched_from_case(l) for l in load_corpus(None)]
    if corpus:
        run_batch(ctx, exe, drv, corpus)
    ctx.count("corpus", len(corpus))

    pool = build_pool(exe, gen_specs(r, 120 if thorough else 60, 1, thorough))
    shorts = build_pool(exe, ["s,l,1,1,7,a", "c,B,-1,0,8,b"] if thorough else [r.choice(["s,l,1,1,7,a", "c,B,-1,0,8,b", "s,B,0,2,9,c"])])
    scheds = []
    for sh in shorts:
        scheds += gen_schedules(r, pool, thorough, sh) if sh is shorts[0] else [
            Sched([sh], interleave(r, writes_for([sh], [a, b]), 1, "after_each"), "2cut")
            for a in range(1, sh.n) for b in range(a + 1, sh.n)]
    ctx.extra["short_message_bytes"] = [sh.n for sh in shorts]
    # every special descriptor count and every message whose descriptors the body does not mention: at least
    # one schedule each, whole / cut inside the fixed header / first bytes one by one
    for m in pool:
        if m.nfds >= 9 or m.spec.endswith(",u"):
            other = r.choice([x for x in pool if x.nfds < 9])
            scheds.append(Sched([m], interleave(r, writes_for([m], []), 1, "after_each"), "descriptors"))
            scheds.append(Sched([m, other], interleave(r, writes_for([m, other], [r.randrange(1, 16), m.n - 1]), 2, "dense"), "descriptors"))
            scheds.append(Sched([other, m], interleave(r, writes_for([other, m], range(other.n, other.n + 20)), 2, "reads"), "descriptors"))
    run_batch(ctx, exe, drv, scheds)

    # bodies whose length does not fit 16 bits / around 200 KiB, delivered in varied chunkings
    big = build_pool(exe, gen_big_specs(r, thorough, 5000))
    scheds = []
    for _ in range(60 if thorough else 5):
        b = r.choice(big)
        msgs = [b]
        if r.random() < 0.6:
            msgs = [x for x in [r.choice(pool) if r.random() < 0.5 else None, b, r.choice(pool) if r.random() < 0.7 else None] if x is not None and x.nfds < 9]
        total = sum(m.n for m in msgs)
        cuts, p = set(), 0
        while p < total:
            p += r.choice([r.randrange(1, 40), r.randrange(1000, 16000), r.randrange(8000, 16000), 16000])
            cuts.add(p)
        scheds.append(Sched(msgs, interleave(r, writes_for(msgs, cuts), len(msgs), "big"), "big body"))
    # a backlog: the peer writes everything while the client is not reading (its send buffer is enlarged), then a
    # single call has to read far more than 64 KiB at once
    for _ in range(30 if thorough else 4):
        b = r.choice(big)
        msgs = [x for x in [r.choice(pool) if r.random() < 0.4 else None, b, r.choice(pool) if r.random() < 0.6 else None] if x is not None and x.nfds < 9]
        scheds.append(Sched(msgs, backlog(r, msgs), "big backlog"))
    # an array of header fields of 64 KiB and more (a long object path): every such message whole-frame chunked, cut
    # inside / right behind the fixed header and its length field, and as a backlog
    bighdr = build_pool(exe, gen_bighdr_specs(r, thorough, 5500))
    for b in bighdr:
        if len(b.frame) // 2 - len(b.body) // 2 < 65536:
            if not thorough:
                raise vlib.BrokenTie("c09: a generated long header is shorter than 64 KiB", b.spec)
        ctx.count("messages with an array of header fields of 64 KiB or more", 0)
        for style in ("big", "cuts", "backlog"):
            msgs = [x for x in [r.choice(pool) if r.random() < 0.5 else None, b, r.choice(pool) if r.random() < 0.7 else None] if x is not None and x.nfds < 9]
            if style == "backlog":
                scheds.append(Sched(msgs, backlog(r, msgs), "big header backlog"))
                continue
            total = sum(m.n for m in msgs)
            at = sum(m.n for m in msgs[:msgs.index(b)])
            cuts, p = set(), 0
            while p < total:
                p += r.choice([r.randrange(1, 40), r.randrange(1000, 16000), r.randrange(8000, 16000), 16000]) if style == "big" else r.randrange(8000, 16001)
                cuts.add(p)
            if style == "cuts":
                cuts |= set(at + c for c in r.sample([1, 3, 4, 7, 8, 11, 12, 13, 14, 15, 16, 17, 20, 255, 256, 257], 5))
                cuts |= {at + b.n - 1, at + 65535, at + 65536, at + 65537}
            scheds.append(Sched(msgs, interleave(r, writes_for(msgs, cuts), len(msgs), "big"), "big header"))
    run_batch(ctx, exe, drv, scheds)

    # bodies above 2^26 bytes up to frames of MAX_MESSAGE_LEN bytes: the property predicate alone (no model run)
    run_giants(ctx, exe, gen_giants(ctx.sub_rng("giant"), thorough))

    # frames of MiB size: with the model up to 2 MiB (quick) / 4 MiB (thorough); beyond that the extracted model
    # (bytes as unary-free but boxed numbers in lists) is too slow, and only the property predicate is evaluated
    with_model, without = [], []
    sizes = [2 << 20] if not thorough else [1 << 20, 2 << 20, 4 << 20, 8 << 20, 16 << 20, 32 << 20]
    for k, n in enumerate(sizes):
        spec = "%s,%s,%d,%d,%d,huge" % (r.choice("cs"), r.choice("lB"), n + r.randrange(0, 9), r.choice([0, 1]), 6000 + k)
        m = build_pool(exe, [spec])[0]
        small = r.choice([x for x in pool if x.nfds < 9])
        msgs = [m, small]
        if n <= (4 << 20 if thorough else 2 << 20):
            with_model.append(Sched(msgs, backlog(r, msgs), "huge frame"))
        else:
            without.append(Sched(msgs, backlog(r, msgs, plain=True), "huge frame"))
    run_batch(ctx, exe, drv, with_model)
    if without:
        run_batch(ctx, exe, drv, without, model=False)

    # kernel assumptions
    kc = kprobe_cases(ctx.sub_rng("kprobe"), 3000 if thorough else 300)
    ok1, ko, e1 = vlib.par_run_lines(exe, [], kc)
    ok2, mo, e2 = vlib.par_run_lines(drv, [], kc)
    if not (ok1 and ok2):
        ctx.tie_broken("kprobe run failed", e1 + e2)
    else:
        bad = [(c, a, b) for c, a, b in zip(kc, ko, mo) if a != b]
        ctx.extra["kernel_assumption_cases"] = len(kc)
        ctx.extra["kernel_assumption_mismatches"] = len(bad)
        if bad:
            ctx.tie_broken("the running kernel does not behave like the socket model of DESIGN.md section 4",
                           "\n".join("%s\n kernel: %s\n model : %s" % b for b in bad[:3]))
    ctx.exhaustive = False
    if ctx.extra.get("not_evaluated"):
        ctx.tie_broken("%d schedules were not evaluated (set-up failure, or skipped / not re-run after hanging cases): the run "
                       "does not show the property on them" % ctx.extra["not_evaluated"], "see the input distribution")


def replay(ctx, body):
    data = body["data"]
    exe = vlib.harness_build(["c09"])["c09"]
    if "giant" in data:
        rc, out, err = vlib.run_lines(exe, [], [data["giant"]], timeout=600)
        res = out[0] if rc == 0 and len(out) == 1 else "HANG"
        print("case   :", data["giant"])
        print("results:", res[:1500])
        why = giant_verdict(data["giant"], res) if not res.startswith("SETUPFAIL") else None
        if why:
            print("REPRODUCED:", why)
            return 1
        print("not reproduced (the implementation's results satisfy the property on this case)")
        return 0
    if "line" not in data:
        # MiB-sized frames: rebuilt from the specs
        ms = build_pool(exe, data["specs"])
        data["line"] = Sched(ms, data["events"].split(","), "replay").line()
        data["canons"] = [m.canon for m in ms]
    line = data["line"]
    rc, out, err = vlib.run_lines(exe, [], [line], timeout=120, env={"C09_CASE_MS": "20000"})
    parts = line.split(" ")
    nf = [] if parts[2] == "-" else [int(x) for x in parts[2].split(".")]
    msgs = []
    pos = 0
    for i, (canon, n) in enumerate(zip(data["canons"], nf)):
        m = RawMsg("", canon, n)
        if "lens" in data:
            m.n = data["lens"][i]
        msgs.append(m)
    if out and out[0] == "HANG":
        print("events :", parts[3] if len(parts) > 3 else "")
        print("REPRODUCED: a receive call never returned (case deadline expired)")
        return 1
    toks = out[0].split(",") if out else []
    why = property_verdict(toks, msgs, parts[3].split(",") if len(parts) > 3 and "lens" in data else None) if not (out and out[0].startswith("SCHEDERR")) else None
    print("events :", parts[3] if len(parts) > 3 else "")
    print("results:", [t[:80] for t in toks])
    if why:
        print("REPRODUCED:", why)
        return 1
    print("not reproduced (the implementation's results satisfy the property on this schedule)")
    return 0
