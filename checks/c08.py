"""C08 - name and object-path validators accept exactly the spec's languages.

Proof: coq/Properties/C08.v (each of the five validators = the language of Names/Spec.v for every
string; ObjectPath::new; the header marshaller writes a name only after its validator accepted it;
totality). Tie: the extracted model (ocaml/c08) and the real crate (harness bin c08) run on the same
strings: exhaustive enumeration over a 13-character alphabet, every Unicode scalar value inside valid
frames, 255-byte boundaries, generated/mutated names, random long names.  Observables: accept/reject
of the five validators and ObjectPath::new, Ok/Err of wire::marshal::marshal with the string in each of
the six name positions of the header (and the names found in the produced bytes), Ok/Err of pushing the
string as an object path into a message body, and the receive direction (top-level and nested in array /
struct / dict key / dict value / variant, through validate(), get_param() and the typed get).  Long strings
(4 KiB .. 1 MiB; object paths have no length limit) are sent as "rep" descriptors; above MODEL_MAX_QUICK
bytes the quick tier judges them by spec_path (the grammar in Python), which is compared with the extracted
model on all shorter long strings.  Because the model is *proved* equal to the
specification, an accept/reject difference between implementation and model is an input on which
the implementation differs from the specification: a concrete violation.
"""
import concurrent.futures as cf
import glob
import os
import subprocess
import sys

import vlib

# a Z 0 9 _ - . : / e-acute arabic-indic-digit-three NUL space
ALPHA = ["a", "Z", "0", "9", "_", "-", ".", ":", "/", "é", "٣", "\x00", " "]
ALPHA_ARG = ",".join("%x" % ord(c) for c in ALPHA)
DEFAULT_TAIL = "P:err I:err E:err B:err M:err O:err W:eeeeee Y:eeeeee T:eeeeee R:ee N:eeeeeeeeeeeeeee H:eeeeee"
# the line of a valid object path longer than 255 bytes (no name language contains it)
LONG_PATH_TAIL = "P:ok I:err E:err B:err M:err O:ok W:oeeeee Y:oooooo T:oooooo R:oo N:ooooooooooooooo H:oeeeee"
NAMES = {"P": "validate_object_path", "I": "validate_interface", "E": "validate_errorname",
         "B": "validate_busname", "M": "validate_membername", "O": "ObjectPath::new"}
WPOS = ["path", "interface", "member", "error_name", "destination", "sender"]
WKEY = ["P", "I", "M", "E", "B", "B"]          # the validator that decides each header position
WCONF = ["Call/minimal", "Call/full", "Signal/minimal", "Signal/full", "Reply/minimal", "Reply/full", "Error/minimal", "Error/full"]
CTORS = ["ObjectPath::<String>::new", "TryFrom<&str> for ObjectPath", "TryFrom<String> for ObjectPath", "ObjectPath::new(&str) + to_owned",
         "impl Unmarshal for ObjectPath<&str> (decoding the wrapper from body bytes)", "impl Unmarshal for ObjectPath<String> (decoding the wrapper from body bytes)"]
ROUTES = ["params::Base::ObjectPath(String)", "params::Base::ObjectPathRef(&str)", "an array element (Param API)", "a variant value (Param API)",
          "a dict key (Param API)", "a struct field (Param API)"]
RECV = ["MessageBodyParser::get_param", "MarshalledMessageBody::validate (validate_raw)"]
NROUTES = ["the second element of an array (ao)", "a field of a struct (yo)", "a dict key (a{oy})", "a dict value (a{yo})",
           "the content of a variant (v holding o)"]
NDEC = ["MarshalledMessageBody::validate (validate_raw)", "MessageBodyParser::get_param",
        "MessageBodyParser::get::<..> (typed API with ObjectPath wrappers)"]
MODEL_MAX_QUICK = 300000      # longer strings are judged by spec_path (Python) in the quick tier: the extracted model needs ~30 s for 1 MiB

# frames (prefix, suffix) around one scalar value; their letters x b m q 1 7 are not in ALPHA, so
# frame strings never coincide with enumerated strings (except the bare character, accounted for)
FRAMES = [("/x", ""), ("/", "x"), ("/x/", ""), ("/", ""), ("/x", "/x"),
          ("x.", "b"), ("", ".b"), ("x.", ""), ("x.b", ""), ("x.1", ""),
          (":1.", ""), (":", ".1"), (":1.7", ""), ("x.b-", ""),
          ("m", ""), ("", "m"), ("", ""), ("m1", "")]

SPECIAL_CPS = [0x7f, 0x80, 0xaa, 0xb2, 0xb5, 0xba, 0xbc, 0xc0, 0xe9, 0x660, 0x663, 0x966, 0x2160, 0x2460,
               0x3007, 0x3021, 0x4e00, 0xac00, 0xd7ff, 0xe000, 0xff10, 0xff21, 0xff41, 0xfffd, 0xffff,
               0x10000, 0x10140, 0x104a0, 0x1d7ce, 0x1d7ff, 0x1f600, 0x20000, 0xe0041, 0x10fffd, 0x10ffff]


NSAMPLE_CPS = 2500          # quick tier: special + seeded sample of scalar values >= U+3000, each put into every frame


def hx(b):
    return b.hex() if b else "-"


def run_tasks(exe, tasks, timeout=3000, big_stack=False):
    """each task (list of input lines) in its own process; returns (rc, output lines, stderr) per task.
    big_stack: lift the stack limit (the extracted list functions are not tail recursive; long strings)"""
    cmd = ["sh", "-c", 'ulimit -s unlimited 2>/dev/null || ulimit -s "$(ulimit -Hs)" 2>/dev/null; exec "$0"', exe] if big_stack else [exe]
    def one(lines):
        p = subprocess.run(cmd, input="\n".join(lines) + "\n", stdout=subprocess.PIPE,
                           stderr=subprocess.PIPE, text=True, timeout=timeout)
        return p.returncode, p.stdout.split("\n")[:-1], p.stderr
    with cf.ThreadPoolExecutor(vlib.NPROC) as ex:
        return list(ex.map(one, tasks))


# ------------------------------------------------------------------ generators (all from ctx rng)
LETTERS = "abcdefghijklmnopqrstuvwxyzABCDEFGHIJKLMNOPQRSTUVWXYZ"
DIGITS = "0123456789"
POOL = ["/", ".", ":", "-", "_", "0", "7", "a", "Q", "\x00", " ", "é", "٣", "€", "\U0001f600",
        "\x7f", "@", "$", "~", "*", "\\", "\t", "\n", "µ", "Ａ", "０", "ß", "[", "`", "{"]


def gen_elem(r, digit_first, dash):
    n = r.choice([1, 1, 2, 3, 3, 5, 8, 12])
    chars = LETTERS + DIGITS + "_" + ("-" if dash else "")
    first = r.choice(chars if digit_first else LETTERS + "_" + ("-" if dash else ""))
    return first + "".join(r.choice(chars) for _ in range(n - 1))


def gen_valid(r):
    k = r.randrange(6)
    if k == 0:
        n = r.choice([0, 1, 1, 2, 3, 6])
        return "/" + "/".join(gen_elem(r, True, False) for _ in range(n))
    if k == 1:
        return ".".join(gen_elem(r, False, False) for _ in range(r.choice([2, 2, 3, 4, 7])))
    if k == 2:
        return ":" + ".".join(gen_elem(r, True, True) for _ in range(r.choice([2, 2, 3, 5])))
    if k == 3:
        return ".".join(gen_elem(r, False, True) for _ in range(r.choice([2, 2, 3, 5])))
    if k == 4:
        return gen_elem(r, False, False)
    return ":" + ".".join(r.choice(DIGITS) + "".join(r.choice(DIGITS) for _ in range(r.randrange(4))) for _ in range(2))


def mutate(r, s):
    s = list(s)
    k = r.randrange(9)
    if k == 0 and s:
        del s[r.randrange(len(s))]
    elif k == 1:
        s.insert(r.randrange(len(s) + 1), r.choice(POOL))
    elif k == 2 and s:
        s[r.randrange(len(s))] = r.choice(POOL)
    elif k == 3 and s:
        seps = [i for i, c in enumerate(s) if c in "/.:"]
        if seps:
            i = r.choice(seps)
            s.insert(i, s[i])                      # doubled separator -> empty element
    elif k == 4 and len(s) >= 2:
        i, j = sorted(r.sample(range(len(s)), 2))
        s[i], s[j] = s[j], s[i]
    elif k == 5:
        s.insert(0, r.choice([":", "/", ".", "1", "-"]))
    elif k == 6:
        s.append(r.choice(["/", ".", ":", "-", "\x00"]))
    elif k == 7 and s:
        s = s[: r.randrange(len(s) + 1)]
    else:
        seps = [i for i, c in enumerate(s) if c in "/."]
        if seps:
            i = r.choice(seps)
            s.insert(i + 1, r.choice(DIGITS))      # element starting with a digit
    return "".join(s)


def pad_shapes(n):
    """valid-shaped names of exactly n bytes (ASCII) for each kind, n >= 8"""
    out = []
    out.append("a" * (n - 2) + ".b")                          # interface / well-known bus / error
    out.append("a." * ((n - 1) // 2) + "b" * (1 + (n - 1) % 2))  # many short elements
    out.append("a_1." + "Z" * (n - 4 - 2) + ".c")
    out.append(":" + "1" * (n - 3) + ".2")                    # unique
    out.append(":1." * 1 + "7" * (n - 3))
    out.append("a-b." + "-" * (n - 4))                        # well-known with dashes
    out.append("a" * n)                                       # member
    out.append("_" * (n - 1) + "9")
    out.append("/" + "a" * (n - 1))                           # path (no limit)
    out.append("/a" * (n // 2) + "/" * (n % 2))               # path; trailing slash when n is odd
    return out


def boundary_strings():
    out = []
    for n in (253, 254, 255, 256, 257, 300, 302, 511):
        for s in pad_shapes(n):
            assert len(s.encode()) == n, (n, s[:20])
            out.append(s)
    # multi-byte characters next to the boundary: bytes and characters disagree about 255
    for mb in ("é", "٣", "€", "\U0001f600"):
        k = len(mb.encode())
        for total in (254, 255, 256, 257):
            for s in pad_shapes(total - k):
                out.append(s + mb)                 # byte length = total
                out.append(s[:-1] + mb + s[-1])
        out.append("a." + mb * 126 + "b")
        out.append(mb * 128)
        out.append(mb * 255)
    # 255 characters but more bytes / 255 bytes but fewer characters
    out.append("a." + "b" * 252 + "é")
    out.append("a." + "b" * 251 + "é")
    return out


FIXED = ["", "/", "//", "/a", "/a/", "/a//b", "a/b", "/a/b_c/D0", "/0", "/_", "/-", "/a.b", "/a:b", "/é", "/a\x00",
         "a.b", "a", "a.", ".a", ".", "..", "a..b", "a.b.", "a.1", "1.a", "a1.b2", "_a._b", "a.b-c", "a-b.c", "-a.b", "a.-b",
         ":1.2", ":1", ":", ":.", ":a.b", ":1.2.", ":1..2", "::1.2", ":1.:2", "a.:b", ":-.-", ":_._", "1.2", ":a-b.c-d",
         "m", "M_1", "1m", "_", "-", "m.n", "m-n", "m n", " m", "m\x00", "\x00", "mé", "٣", "9", "org.freedesktop.DBus",
         "org.freedesktop.DBus.Error.Failed", "/org/freedesktop/DBus", "Hello", "GetAll", ":1.1024", "com.example.7zip",
         "com.example._7zip", "1leading.digits", "have_more_than_one_element", "/da$$/di!!/du~~", "Shouldnt.have.dots"]


# ------------------------------------------------------------------ judging one pair of lines

def parse_line(line):
    parts = line.split(" ")
    d = {"hex": parts[0]}
    for p in parts[1:]:
        if ":" in p:
            k, v = p.split(":", 1)
            d[k] = v
        else:
            d[p] = True
    return d


def judge(impl_line, model_line):
    """(violations, others): violations = property clauses that fail on this input, decided by the
    specification (= the proved model) against the implementation's own verdicts; others = differences
    the property does not decide (panics on rejected input, wire bytes that could not be matched)"""
    i, m = parse_line(impl_line), parse_line(model_line)
    viol, other = [], []
    if i["hex"] != m["hex"]:
        return [], ["harness/driver out of step or UTF-8 encodings differ (%s vs %s)" % (i["hex"], m["hex"])]
    if "NOTUTF8" in i or "NOTUTF8" in m or "?ENC" in m:
        if ("NOTUTF8" in i) != ("NOTUTF8" in m) or "?ENC" in m:
            other.append("UTF-8 decoding differs between harness and model driver")
        return viol, other
    for k, name in NAMES.items():
        spec_ok = m[k] == "ok"
        if i[k] == "ok" and not spec_ok:
            viol.append("%s accepts a string the specification forbids" % name)
        elif i[k] == "err" and spec_ok:
            viol.append("%s rejects a string the specification allows" % name)
        elif i[k] == "bad":
            viol.append("ObjectPath::new returned a different string")
        elif i[k] != m[k]:
            (viol if spec_ok else other).append("%s: %s (specification: %s)" % (name, i[k], m[k]))
    detail = {}
    for part in (i.get("WD") or "").split(","):
        if "=" in part:
            k, v = part.split("=", 1)
            detail[int(k)] = v
    for pos, (wi, wm) in enumerate(zip(i["W"], m["W"])):
        spec_ok = m[WKEY[pos]] == "ok"
        if wm != ("o" if spec_ok else "e"):
            other.append("model wire verdict inconsistent with model validator at %s" % WPOS[pos])
        letters = detail.get(pos, wi * 8) if wi == "m" else wi * 8
        def confs(ch):
            return ",".join(WCONF[c] for c, l in enumerate(letters) if l == ch)
        if "o" in letters and not spec_ok:
            viol.append("marshal writes a header whose %s the specification forbids (%s message)" % (WPOS[pos], confs("o")))
        elif "e" in letters and spec_ok:
            viol.append("marshal refuses a header whose names are all valid (%s under test, %s message)" % (WPOS[pos], confs("e")))
        elif "p" in letters and spec_ok:
            viol.append("marshal panics on a header whose names are all valid (%s under test, %s message)" % (WPOS[pos], confs("p")))
        elif wi != wm:
            other.append("marshal with the string as %s: %s %s (model %s)" % (WPOS[pos], wi, detail.get(pos, ""), wm))
    path_ok = m["P"] == "ok"
    for c, (ti, tm) in enumerate(zip(i.get("T", "????"), m.get("T", "????"))):
        if tm != ("o" if path_ok else "e"):
            other.append("model constructor verdict inconsistent with model validator (%s)" % CTORS[c])
        if ti in ("o", "n", "x") and not path_ok:
            viol.append("%s accepts a path the specification forbids%s" % (CTORS[c], {"o": " and the typed Marshal impl writes it into a message body", "n": "", "x": ""}[ti]))
        elif ti == "e" and path_ok:
            viol.append("%s rejects a path the specification allows" % CTORS[c])
        elif ti == "n" and path_ok:
            viol.append("the typed Marshal impl refuses a valid ObjectPath (%s)" % CTORS[c])
        elif ti != tm:
            other.append("%s then typed marshal: %s (model %s)" % (CTORS[c], ti, tm))
    for c, (yi, ym) in enumerate(zip(i.get("Y", "??????"), m.get("Y", "??????"))):
        if ym != ("o" if path_ok else "e"):
            other.append("model body-path verdict inconsistent with model validator")
        if yi in ("o", "x") and not path_ok:
            viol.append("a forbidden object path is written into a message body as %s" % ROUTES[c])
        elif yi in ("e", "p") and path_ok:
            viol.append("a valid object path is refused in a message body as %s" % ROUTES[c])
        elif yi != ym:
            other.append("body object path as %s: %s (model %s)" % (ROUTES[c], yi, ym))
    for c, (ri, rm) in enumerate(zip(i.get("R", "??"), m.get("R", "??"))):
        if rm != ("o" if path_ok else "e"):
            other.append("model receive verdict inconsistent with model validator")
        if ri in ("o", "x") and not path_ok:
            viol.append("%s accepts from the wire an object path the specification forbids" % RECV[c])
        elif ri in ("e", "p") and path_ok:
            viol.append("%s refuses an object path a conforming peer may send" % RECV[c])
        elif ri != rm:
            other.append("%s: %s (model %s)" % (RECV[c], ri, rm))
    for c, (ni, nm) in enumerate(zip(i.get("N", "?" * 15), m.get("N", "?" * 15))):
        route, dec = NROUTES[c // 3], NDEC[c % 3]
        if nm != ("o" if path_ok else "e"):
            other.append("model nested-receive verdict inconsistent with model validator")
        if ni in ("o", "x") and not path_ok:
            viol.append("%s accepts from the wire, as %s, an object path the specification forbids" % (dec, route))
        elif ni in ("e", "p") and path_ok:
            viol.append("%s refuses, as %s, an object path a conforming peer may send" % (dec, route))
        elif ni != nm:
            other.append("%s, path as %s: %s (model %s)" % (dec, route, ni, nm))
    hdetail = {}
    for part in (i.get("HD") or "").split(","):
        if "=" in part:
            k, v = part.split("=", 1)
            hdetail[int(k)] = v
    for pos, (hi, hm) in enumerate(zip(i.get("H", "??????"), m.get("H", "??????"))):
        spec_ok = m[WKEY[pos]] == "ok"
        if hm != ("o" if spec_ok else "e"):
            other.append("model header-decode verdict inconsistent with model validator at %s" % WPOS[pos])
        letters = hdetail.get(pos, hi * 8) if hi == "m" else hi * 8
        def hconfs(ch):
            return ",".join(WCONF[c] for c, l in enumerate(letters) if l == ch)
        if "o" in letters and not spec_ok:
            viol.append("the header decoder accepts a %s the specification forbids (%s message)" % (WPOS[pos], hconfs("o")))
        elif ("e" in letters or "p" in letters) and spec_ok:
            viol.append("the header decoder refuses a %s a conforming peer may send (%s message)" % (WPOS[pos], hconfs("e") or hconfs("p")))
        elif hi != hm:
            other.append("header decode with the string as %s: %s %s (model %s)" % (WPOS[pos], hi, hdetail.get(pos, ""), hm))
    return viol, other


# ------------------------------------------------------------------ long strings ("rep" lines)
PATH_CHARS = set("abcdefghijklmnopqrstuvwxyzABCDEFGHIJKLMNOPQRSTUVWXYZ0123456789_")


def spec_path(s):
    """'Valid Object Paths' of the D-Bus specification, written directly in Python (no length limit): begins with '/',
    elements separated by single '/', no empty element, no trailing '/' except for the root path, only [A-Za-z0-9_]"""
    if s == "/":
        return True
    if not s.startswith("/"):
        return False
    return all(e != "" and set(e) <= PATH_CHARS for e in s[1:].split("/"))


def rep_text(d):
    pfx, unit, count, sfx = d
    return pfx + unit * count + sfx


def rep_line(d):
    pfx, unit, count, sfx = d
    return "rep %s %s %d %s" % (hx(pfx.encode()), hx(unit.encode()), count, hx(sfx.encode()))


def rep_label(d):
    return rep_line(d).replace(" ", "/")


def rep_describe(d):
    return "%r + %r * %d + %r (%d bytes)" % (d[0], d[1], d[2], d[3], len(rep_text(d).encode()))


def rep_predicted(d):
    """the line the specification requires for a string of more than 255 bytes, from spec_path"""
    t = rep_text(d)
    assert len(t.encode()) > 255
    return "%s %s" % (rep_label(d), LONG_PATH_TAIL if spec_path(t) else DEFAULT_TAIL)


def rep_of_token(tok):
    _, pfx, unit, count, sfx = tok.split("/")
    dec = lambda h: "" if h == "-" else bytes.fromhex(h).decode("utf-8")
    return (dec(pfx), dec(unit), int(count), dec(sfx))


def long_descriptors(r, thorough):
    """object paths of 4 KiB .. 1 MiB: one element / many 1-character elements / many mixed elements, valid and with
    one defect at the very end or the very start; exact byte lengths around 64 KiB; seeded lengths in between"""
    sizes = [4096, 65535, 65536, 65537, 131072, 1 << 20]
    sizes += [r.randrange(257, 4096), r.randrange(4097, 65535), r.randrange(65538, 300000)]
    if thorough:
        sizes += [r.randrange(300000, 1 << 20), (1 << 20) + 1, 1 << 21]
    out = []
    for n in sizes:
        # valid, exactly n bytes
        out.append(("/", "a", n - 1, ""))                                   # one element
        out.append(("", "/a", n // 2, "a" * (n % 2)))                       # n/2 elements (more than 256; more than 65536 from 128 KiB on)
        out.append(("", "/Ab_9", n // 5, ["", "z", "/z", "/zz", "/zzz"][n % 5]))
        # one defect, n bytes (or n +- 1)
        out.append(("/", "a", n - 2, "-"))                                  # bad character at the very end
        out.append(("/", "a", n - 2, "/"))                                  # trailing slash
        out.append(("/", "a", n - 4, "//a"))                                # empty element at the end
        out.append(("/", "a", n - 3, "\u00e9"))                             # non-ASCII at the end
        out.append(("", "/a", n // 2 - 1, "/-"))
        out.append(("", "/a", n // 2 - 1, "a/"))
        out.append(("", "/a", n // 2 - 1, "//"))
        out.append(("/", "/a", n // 2, ""))                                 # empty first element
        out.append(("a", "/a", n // 2, ""))                                 # no leading slash
        out.append(("", "/a", n // 2 - 1, "/a\x00"))
    # the other kinds at this size: valid shapes of names, far beyond 255 bytes (must be refused everywhere)
    for n in (4096, 65537):
        out.append(("a", ".b", n // 2, ""))
        out.append((":1", ".2", n // 2, ""))
        out.append(("", "m", n, ""))
    return list(dict.fromkeys(out))


def shrink_rep(ctx, d, clause):
    """smallest repetition count (bisection, assuming the failure is monotone in the length) on which the same
    clause still fails; judged against rep_predicted (the specification predicate in Python)"""
    exe, _ = getattr(ctx, "c08_bins", (None, None))
    if not exe:
        return None
    def fails(count):
        dd = (d[0], d[1], count, d[3])
        if len(rep_text(dd).encode()) <= 255:
            return None
        (rc, out, _), = run_tasks(exe, [[rep_line(dd)]])
        if rc != 0 or len(out) != 1:
            return None
        lm = rep_predicted(dd)
        return (dd, out[0], lm) if clause in judge(out[0], lm)[0] else None
    lo, hi, best = 256 // max(1, len(d[1].encode())), d[2], None
    for _ in range(40):
        if lo >= hi:
            break
        mid = (lo + hi) // 2
        got = fails(mid)
        if got:
            best, hi = got, mid
        else:
            lo = mid + 1
    return best


def shrink(ctx, text, viol, li, lm):
    """greedy one-character deletion while the first failing clause keeps failing (both programs are
    re-run on the candidates); returns (text, impl line, model line) of the smallest string found"""
    exe, drv = getattr(ctx, "c08_bins", (None, None))
    if not exe or len(text) > 600:
        return text, li, lm
    clause = viol[0]
    for _ in range(700):
        cands = list(dict.fromkeys(text[:i] + text[i + 1:] for i in range(len(text))))
        if not cands:
            break
        lines = ["s " + hx(c.encode("utf-8")) for c in cands]
        (rc_i, out_i, _), = run_tasks(exe, [lines])
        (rc_m, out_m, _), = run_tasks(drv, [lines])
        if rc_i != 0 or rc_m != 0 or len(out_i) != len(cands) or len(out_m) != len(cands):
            break
        for c, a, b in zip(cands, out_i, out_m):
            if a != b and clause in judge(a, b)[0]:
                text, li, lm = c, a, b
                break
        else:
            break
    return text, li, lm


def report(ctx, li, lm):
    ctx.disagreements_checked += 1
    viol, other = judge(li, lm)
    h = li.split(" ", 1)[0]
    if h.startswith("rep/"):
        d = rep_of_token(h)
        if viol:
            data = {"input_line": rep_line(d), "input": rep_describe(d), "impl": li, "spec_model": lm}
            if getattr(ctx, "nviol", 0) < 5:
                try:
                    small = shrink_rep(ctx, d, viol[0])
                    if small and small[0] != d:
                        data = {"input_line": rep_line(small[0]), "input": rep_describe(small[0]), "impl": small[1],
                                "spec_model": small[2], "shrunk_from": rep_describe(d), "shrunk_from_line": rep_line(d),
                                "note": "spec_model of the shrunk input is the line required by the specification predicate spec_path (Python)"}
                        viol = judge(small[1], small[2])[0] or viol
                except Exception:
                    pass
            ctx.violation("; ".join(viol), data)
        else:
            ctx.tie_broken("correspondence: " + "; ".join(other or ["lines differ on a point the property does not constrain"]),
                           "input %s\nimpl:  %s\nmodel: %s" % (rep_describe(d), li, lm))
        return
    try:
        text = bytes.fromhex(h).decode("utf-8") if h != "-" else ""
    except ValueError:
        text = None
    if viol:
        data = {"input_hex": h, "input": text, "impl": li, "spec_model": lm}
        if text is not None and getattr(ctx, "nviol", 0) < 5:
            try:
                small, sli, slm = shrink(ctx, text, viol, li, lm)
                if small != text:
                    data = {"input_hex": hx(small.encode("utf-8")), "input": small, "impl": sli, "spec_model": slm,
                            "shrunk_from": text, "shrunk_from_hex": h}
                    viol = judge(sli, slm)[0] or viol
            except Exception:
                pass
        ctx.violation("; ".join(viol), data)
    elif other:
        ctx.tie_broken("correspondence: " + "; ".join(other), "input %r\nimpl:  %s\nmodel: %s" % (text, li, lm))
    else:
        ctx.tie_broken("correspondence: lines differ on a point the property does not constrain",
                       "impl:  %s\nmodel: %s" % (li, lm))


def is_nontrivial(s, accepted):
    return accepted or (any(c in "/.:" for c in s) and any(c.isascii() and (c.isalnum() or c in "_-") for c in s))


# ------------------------------------------------------------------ optional guard: libdbus

def libdbus():
    try:
        import ctypes
        import ctypes.util
        lib = ctypes.CDLL(ctypes.util.find_library("dbus-1") or "libdbus-1.so.3")
        fns = {}
        for key, n in (("P", "path"), ("I", "interface"), ("M", "member"), ("E", "error_name"), ("B", "bus_name")):
            f = getattr(lib, "dbus_validate_" + n)
            f.argtypes = [ctypes.c_char_p, ctypes.c_void_p]
            f.restype = ctypes.c_uint
            fns[key] = f
        return fns
    except Exception:
        return None


def libdbus_compare(ctx, fns, raw, model_verdicts, stats):
    """auxiliary guard against mis-reading the specification (DESIGN.md section 5): the model (= the
    specification, proved) against libdbus's own validators.  Expected difference: libdbus accepts unique
    names without a '.' or with empty first element (":", ":a", ":.a"), which the specification text forbids."""
    if b"\x00" in raw:
        return
    for k, f in fns.items():
        lib_ok = bool(f(raw, None))
        spec_ok = model_verdicts[k] == "ok"
        stats["compared"] += 1
        if lib_ok == spec_ok:
            continue
        if k == "B" and raw.startswith(b":") and lib_ok and not spec_ok:
            stats["expected_unique_name_laxness"] += 1
            continue
        stats["unexpected"] += 1
        if len(stats["unexpected_samples"]) < 10:
            stats["unexpected_samples"].append({"input": raw.decode("utf-8", "replace"), "kind": NAMES[k],
                                                "libdbus": lib_ok, "spec": spec_ok})


# ------------------------------------------------------------------ the check

def run(ctx):
    thorough = ctx.tier == "thorough"
    maxlen = 6 if thorough else 5
    scan_txt = ("every one of the 1,112,064 Unicode scalar values" if thorough else
                "every scalar value in U+0000..U+2FFF (12,288 per frame) plus, per frame, %d code points as explicit strings (a fixed list of special ones and a seeded sample "
                "of U+3000..U+10FFFF) (the full 1,112,064 scalar values are scanned only in the thorough tier)")
    ctx.rule = ("strings = (1) exhaustive enumeration of all strings over the 13 characters {a Z 0 9 _ - . : / U+00E9 U+0663 NUL space} "
                "up to length %d, enumerated inside the harness and inside the extracted model and compared by the set of lines "
                "with any accepting verdict plus the totals; (2) %s as the one varying character in %d valid "
                "frames (/x<c>, x.<c>b, :1.<c>, m<c>, <c> alone, ...); (3) the 253..257/300/302/511-byte boundary built from valid shapes of "
                "every kind, also with 2/3/4-byte characters next to the boundary; (4) grammar-generated valid names of every kind and "
                "their single/double mutations, random long names, a fixed list, the corpus; (5) long strings of 4 KiB, 64 KiB-1/64 KiB/64 KiB+1, 128 KiB, "
                "1 MiB and seeded lengths in between (object paths have no length limit): one element, n/2 one-character elements (more than 256 and more "
                "than 65536 elements), mixed elements, each valid and with one defect at the very end or start (bad character, non-ASCII, NUL, empty element, "
                "trailing slash, no leading slash), and name shapes far beyond 255 bytes; up to %d bytes judged by the extracted model (which must also agree "
                "with the specification predicate spec_path written in Python), longer ones%s by spec_path alone. Every string goes to the five validators, "
                "every way of obtaining an ObjectPath wrapper (new for &str and String, TryFrom<&str>, TryFrom<String>, to_owned, impl Unmarshal for "
                "ObjectPath<&str>/<String> on body bytes holding the string) followed by the typed Marshal impl with the value read back from the body "
                "bytes, marshal() with the string in each of the six header name positions "
                "in 8 configurations (message type Call/Signal/Reply/Error built with the public builders x only-required-fields/all-fields, names "
                "read back from the header bytes), a body object path pushed with the Param API by six routes (Base::ObjectPath, Base::ObjectPathRef, array "
                "element, variant value, dict key, struct field; exact body bytes compared), and the receive direction: body bytes holding the string "
                "as type o through get_param and MarshalledMessageBody::validate, the same string as an object path NESTED in hand-encoded body bytes (second "
                "array element ao, struct field (yo), dict key a{oy}, dict value a{yo}, variant content) through validate(), get_param() and the typed "
                "get::<Vec<ObjectPath>/(u8,ObjectPath)/HashMap<ObjectPath,u8>/HashMap<u8,ObjectPath>/Variant>() with the decoded value compared, and a hand-encoded header carrying the string in each name position "
                "(same 8 configurations) through unmarshal_header + unmarshal_dynamic_header. "
                "A case is non-trivial when some verdict accepts it or it contains both a separator (/ . :) and a name character; "
                "distinct = distinct strings") % (maxlen, scan_txt if thorough else scan_txt % NSAMPLE_CPS, len(FRAMES), MODEL_MAX_QUICK,
                                                  " (none in this tier)" if thorough else " (the 1 MiB ones; quick tier only)")
    ctx.trusted = ["Coq 8.16.1 kernel (coqc), no native_compute",
                   "extraction with ExtrOcamlBasic only, ocamlfind ocamlopt 4.13.1",
                   "ocaml/c08/driver.ml (UTF-8 decoder, cross-checked against the extracted utf8_bytes on every explicit string) and harness/src/bin/c08.rs (I/O wrappers, an independent header-field reader)",
                   "coq/Names/Spec.v is my reading of the D-Bus specification's 'Valid Object Paths' and 'Valid Names' (guarded by a comparison with libdbus when installed)",
                   "checks/c08.py spec_path (the object-path grammar in Python): the only judge of strings above %d bytes in the quick tier; compared with the extracted model on every shorter long string" % MODEL_MAX_QUICK,
                   "ocaml/c08/driver.ml maps the nested receive routes (container element/field/key/value/variant content) to the model's three base decoders of type o; the container layout itself is C03/C04's subject",
                   "coq/Names/Str.v is my reading of str::split/split_once/strip_prefix/len and char::is_ascii_* (tied to std by the differential run)"]
    ctx.assumptions = ["SignatureWrapper (the other wrapper type in wrapper_types.rs) belongs to C07 (signatures), not to this property",
                       "strings are Rust &str (valid UTF-8); the model works on the list of scalar values",
                       "usize is 64 bit (the cnt = i + 1 counter cannot overflow for strings of at most 255 bytes in any case)",
                       "the receive theorems (C08_receive, C08_receive_path) take the result of the string decoder (read_str: length, UTF-8, NUL, terminator) as given; that decoder, and header well-formedness beyond the names, are C03's and C06's subject",
                       "the wire corollary records what marshal_header_* write as (field code, string); the byte layout is C02/C05's subject; the harness reads the names back from the real bytes"]
    ctx.try_proof()
    exe = vlib.harness_build(["c08"])["c08"]
    vlib.coq_make(["Names/Wire.vo", "Names/Examples.vo"])
    drv = vlib.ocaml_build("c08")
    ctx.c08_bins = (exe, drv)
    fns = libdbus()
    lstats = {"compared": 0, "expected_unique_name_laxness": 0, "unexpected": 0, "unexpected_samples": []}

    # ---------------- stream 1: explicit strings
    r = ctx.sub_rng("gen")
    strings = []
    for f in sorted(glob.glob(os.path.join(vlib.VERIF, "corpus", "C08", "*.case"))):
        for line in open(f):
            line = line.strip()
            if line and not line.startswith("#"):
                try:
                    strings.append(bytes.fromhex(line).decode("utf-8") if line != "-" else "")
                except (ValueError, UnicodeDecodeError):
                    pass
    ncorpus = len(strings)
    strings += FIXED
    strings += boundary_strings()
    ngen = 30000 if thorough else 3000
    for _ in range(ngen):
        s = gen_valid(r)
        strings.append(s)
        m1 = mutate(r, s)
        strings.append(m1)
        strings.append(mutate(r, m1))
    for _ in range(ngen // 5):          # random long names
        n = r.choice([20, 100, 200, 250, 254, 255, 256, 260, 300])
        kind = r.randrange(4)
        sep = "/" if kind == 0 else "."
        chars = []
        for _ in range(n):
            x = r.random()
            chars.append(sep if x < 0.08 else (r.choice(POOL) if x < 0.09 else r.choice(LETTERS + DIGITS + "_-" if kind >= 2 else LETTERS + DIGITS + "_")))
        pre = {0: "/", 1: "", 2: ":", 3: ""}[kind]
        strings.append((pre + "".join(chars))[:n])
    # scalar values in frames: specials everywhere; in quick a seeded sample of the part the scan leaves out
    cps = list(SPECIAL_CPS)
    if not thorough:
        rs = ctx.sub_rng("cps")
        while len(cps) < NSAMPLE_CPS:
            c = rs.randrange(0x3000, 0x110000)
            if not 0xd800 <= c <= 0xdfff:
                cps.append(c)
    for c in cps:
        for p, q in FRAMES:
            strings.append(p + chr(c) + q)
    uniq = list(dict.fromkeys(strings))
    lines = ["s " + hx(s.encode("utf-8")) for s in uniq]
    nsh = vlib.NPROC
    chunks = [lines[i::nsh] for i in range(nsh)]
    chunks = [c for c in chunks if c]
    impl = run_tasks(exe, chunks)
    model = run_tasks(drv, chunks)
    nshown = 0
    for (rc_i, out_i, err_i), (rc_m, out_m, err_m), ch in zip(impl, model, chunks):
        if rc_i != 0 or len(out_i) != len(ch):
            ctx.tie_broken("harness c08 crashed or produced short output", err_i[-2000:])
            continue
        if rc_m != 0 or len(out_m) != len(ch):
            ctx.tie_broken("extracted model driver crashed", err_m[-2000:])
            continue
        for li, lm, inp in zip(out_i, out_m, ch):
            raw = bytes.fromhex(inp[2:]) if inp[2:] != "-" else b""
            s = raw.decode("utf-8")
            d = parse_line(lm)
            accepted = any(d.get(k) == "ok" for k in NAMES)
            nt = is_nontrivial(s, accepted)
            sample = None
            if accepted and 6 < len(s) < 40 and nshown < 6:
                nshown += 1
                sample = {"input": s, "impl": li.split(" ", 1)[1], "model": lm.split(" ", 1)[1]}
            ctx.case(inp, nontrivial=nt, sample=sample)
            for k in "PIEBM":
                if d.get(k) == "ok":
                    ctx.count("explicit:valid:" + NAMES[k])
            if not accepted:
                ctx.count("explicit:rejected_by_all")
            ctx.count("explicit:len<=8" if len(raw) <= 8 else ("explicit:len<=64" if len(raw) <= 64 else ("explicit:len<=252" if len(raw) <= 252 else "explicit:len>=253")))
            if not s.isascii():
                ctx.count("explicit:non-ascii")
            if li != lm:
                report(ctx, li, lm)
            if fns and "P" in d:
                libdbus_compare(ctx, fns, raw, d, lstats)
    ctx.count("corpus", ncorpus)

    # ---------------- stream 1b: long strings (4 KiB .. 1 MiB), sent as "rep" descriptors
    descs = long_descriptors(ctx.sub_rng("long"), thorough)
    llines = [rep_line(d) for d in descs]
    by_model = [k for k, d in enumerate(descs) if thorough or len(rep_text(d).encode()) <= MODEL_MAX_QUICK]
    impl = run_tasks(exe, [[l] for l in llines])
    model = dict(zip(by_model, run_tasks(drv, [[llines[k]] for k in by_model], big_stack=True)))
    for k, d in enumerate(descs):
        rc_i, out_i, err_i = impl[k]
        text = rep_text(d)
        nbytes = len(text.encode())
        want = rep_predicted(d)                      # the specification predicate in Python
        lm = None
        if k in model:
            rc_m, out_m, err_m = model[k]
            if rc_m == 0 and len(out_m) == 1:
                lm = out_m[0]
                ctx.count("long:judged_by_extracted_model")
                if lm != want:
                    ctx.tie_broken("correspondence: the extracted model and the specification predicate spec_path (Python) differ on a long string",
                                   "input %s\nmodel:  %s\npython: %s" % (rep_describe(d), lm, want))
                    continue
            else:
                ctx.count("long:model_driver_failed_judged_by_python_predicate")
                sys.stderr.write("NOTE: C08 model driver failed on %s (%s); judged by spec_path\n" % (rep_describe(d), err_m.strip()[-200:]))
        if lm is None:
            lm = want
            ctx.count("long:judged_by_python_predicate")
        if rc_i != 0 or len(out_i) != 1:
            ctx.tie_broken("harness c08 crashed or produced short output on a long string", "input %s\n%s" % (rep_describe(d), err_i[-2000:]))
            continue
        li = out_i[0]
        ok = spec_path(text)
        ctx.case(llines[k], nontrivial=True,
                 sample={"input": rep_describe(d), "impl": li.split(" ", 1)[1], "model": lm.split(" ", 1)[1]} if ok and nbytes == 65537 and d[1] == "/a" else None)
        ctx.count("long:valid_path" if ok else "long:rejected_by_all")
        ctx.count("long:bytes>65536" if nbytes > 65536 else ("long:bytes>=4096" if nbytes >= 4096 else "long:bytes<4096"))
        if text.count("/") > 65536:
            ctx.count("long:more_than_65536_elements")
        elif text.count("/") > 256:
            ctx.count("long:more_than_256_elements")
        if li != lm:
            report(ctx, li, lm)

    # ---------------- stream 2: exhaustive enumeration over ALPHA
    tasks = []
    for L in range(0, maxlen + 1):
        if L <= 3:
            tasks.append(["enum %s %d -1" % (ALPHA_ARG, L)])
        else:
            for first in range(len(ALPHA)):
                tasks.append(["enum %s %d %d" % (ALPHA_ARG, L, first)])
    # ---------------- stream 3: every scalar value in every frame
    hi_all = 0x110000 if thorough else 0x3000
    step = 0x8000 if thorough else 0x1000
    scan_tasks = []
    for p, q in FRAMES:
        for lo in range(0, hi_all, step):
            scan_tasks.append(["scan %d %d %s %s" % (lo, min(hi_all, lo + step), hx(p.encode()), hx(q.encode()))])
    # group scan tasks so that there are not thousands of processes
    grouped = []
    per = max(1, len(scan_tasks) // (4 * vlib.NPROC))
    for i in range(0, len(scan_tasks), per):
        grouped.append([t[0] for t in scan_tasks[i:i + per]])
    all_tasks = tasks + grouped
    impl = run_tasks(exe, all_tasks)
    model = run_tasks(drv, all_tasks)
    total_enum = total_scan = nt_enum = nt_scan = 0
    shown = 0
    for ti, ((rc_i, out_i, err_i), (rc_m, out_m, err_m), t) in enumerate(zip(impl, model, all_tasks)):
        is_enum = ti < len(tasks)
        what = t[0] if len(t) == 1 else "%s .. %s" % (t[0], t[-1])
        tot_i = [l for l in out_i if l.startswith("total ")]
        tot_m = [l for l in out_m if l.startswith("total ")]
        if rc_i != 0 or len(tot_i) != len(t):
            ctx.tie_broken("harness c08 crashed during " + what, err_i[-2000:])
            continue
        if rc_m != 0 or len(tot_m) != len(t):
            ctx.tie_broken("model driver crashed during " + what, err_m[-2000:])
            continue
        if tot_i != tot_m:
            ctx.tie_broken("enumeration counts differ in " + what, "%s vs %s" % (tot_i, tot_m))
        n = sum(int(l.split()[1]) for l in tot_m)
        nt = sum(int(l.split()[3]) for l in tot_m)
        ctx.evaluations += n
        if is_enum:
            total_enum += n
            nt_enum += nt
        else:
            total_scan += n
            nt_scan += nt
        mi = {l.split(" ", 1)[0]: l for l in out_i if not l.startswith("total ")}
        mm = {l.split(" ", 1)[0]: l for l in out_m if not l.startswith("total ")}
        ctx.count("enum:accepted_by_model" if is_enum else "scan:accepted_by_model", len(mm))
        if is_enum and shown < 2 and len(mm) > 3:
            shown += 1
            k = sorted(mm)[len(mm) // 2]
            ctx.samples.append({"enumerated": bytes.fromhex(k).decode("utf-8", "replace"), "impl": mi.get(k, "<no line>"), "model": mm[k]})
        if mi != mm:
            for k in sorted(set(mi) | set(mm)):
                li = mi.get(k, "%s %s" % (k, DEFAULT_TAIL))
                lm = mm.get(k, "%s %s" % (k, DEFAULT_TAIL))
                if li != lm:
                    report(ctx, li, lm)
                if getattr(ctx, "nviol", 0) > 50:
                    break
    ctx.count("enum:total", total_enum)
    ctx.count("scan:total", total_scan)

    # ---------------- libdbus guard on the exhaustive part (thorough: all NUL-free strings up to length 5)
    if fns and thorough:
        import itertools
        al = [c for c in ALPHA if c != "\x00"]
        # model verdicts: re-run the model on these strings through explicit lines would be slow; instead use
        # the enumeration protocol again (NUL-free alphabet) and default-reject everything not printed
        arg = ",".join("%x" % ord(c) for c in al)
        t2 = [["enum %s %d -1" % (arg, L)] for L in range(0, 6)]
        res = run_tasks(drv, t2)
        acc = {}
        for rc, out, err in res:
            for l in out:
                if not l.startswith("total "):
                    acc[l.split(" ", 1)[0]] = parse_line(l)
        rej = {k: "err" for k in NAMES}
        for L in range(0, 6):
            for tup in itertools.product(al, repeat=L):
                raw = "".join(tup).encode("utf-8")
                libdbus_compare(ctx, fns, raw, acc.get(hx(raw), rej), lstats)
    if fns:
        ctx.extra["libdbus_guard"] = lstats
        if lstats["unexpected"]:
            sys.stderr.write("NOTE: specification guard: %d verdicts differ between Names/Spec.v (via the proved model) and libdbus outside the "
                             "documented unique-name laxness: %s\n" % (lstats["unexpected"], lstats["unexpected_samples"][:3]))
    else:
        ctx.extra["libdbus_guard"] = "libdbus not available: skipped"

    # ---------------- accounting
    ctx.extra["exhaustive_up_to_length"] = maxlen
    ctx.extra["enumerated_total"] = total_enum
    ctx.extra["scalar_values_scanned_per_frame"] = total_scan // len(FRAMES)
    ctx.extra["frames"] = ["%s<c>%s" % f for f in FRAMES]
    ctx.exhaustive = False
    alpha_set = set(ALPHA)
    dup_enum = sum(1 for s in uniq if len(s) <= maxlen and all(c in alpha_set for c in s)
                   and is_nontrivial(s, True))          # upper bound of the overlap with the enumeration
    def in_scan(s):
        for p, q in FRAMES:
            if len(s) == len(p) + len(q) + 1 and s.startswith(p) and s.endswith(q) and ord(s[len(p)]) < hi_all:
                return True
        return False
    dup_scan = sum(1 for s in uniq if in_scan(s))
    # frame strings that are also enumerated strings: only the frame "<c>" alone (frame letters are not in ALPHA)
    dup_frames = sum(1 for c in ALPHA if ord(c) < hi_all)
    ctx.extra["distinct_nontrivial_explicit"] = len(ctx.distinct)
    ctx.extra["enumerated_nontrivial"] = nt_enum
    ctx.extra["scanned_nontrivial"] = nt_scan
    ctx.extra["overlap_removed"] = dup_enum + dup_scan + dup_frames
    ctx.extra_distinct = max(0, nt_enum + nt_scan - dup_enum - dup_scan - dup_frames)


def replay(ctx, body):
    data = body["data"]
    exe = vlib.harness_build(["c08"])["c08"]
    vlib.coq_make(["Names/Wire.vo"])
    drv = vlib.ocaml_build("c08")
    line = data.get("input_line") or "s " + data["input_hex"]
    li = run_tasks(exe, [[line]])[0][1][0]
    if line.startswith("rep ") and len(rep_text(rep_of_token(line.replace(" ", "/"))).encode()) > MODEL_MAX_QUICK:
        lm = rep_predicted(rep_of_token(line.replace(" ", "/")))
        print("(specification side: spec_path in Python; the string is too long for the extracted model in reasonable time)")
    else:
        lm = run_tasks(drv, [[line]], big_stack=True)[0][1][0]
    viol, other = judge(li, lm)
    print("input:", repr(data.get("input")))
    print("impl :", li)
    print("spec :", lm)
    if viol:
        print("REPRODUCED:", "; ".join(viol))
        return 1
    if other:
        print("differs, but not on the property:", "; ".join(other))
        return 1
    print("not reproduced (implementation agrees with the specification on this input)")
    return 0
