"""C18 - spec size and depth limits are enforced before resources are committed.

Receive path: headers announcing every boundary value (field array 2^26-1, 2^26, 2^26+1, ...; total 2^27-1, 2^27,
2^27+1; 2^32-1) followed by 0..32 bytes are written to the peer end of a real connection; the worker calls
conn.recv.get_next_message with a wrapping allocator that records the high-water mark.  A refused announcement must end
the call with the limit error itself (MessageTooLong / ArrayTooLong - never TimedOut: the call must not wait for the
announced bytes; the 300 ms time-out only ends the wait for bytes that never come and decides nothing) having allocated
less than 64 KiB; an accepted announcement may reserve the announced size - at most 2^27 bytes, which the protocol allows -
and not more: memory is bounded by the announced, accepted size, not by the bytes received so far.
Decoders: arrays/dicts/strings declaring 2^26-1 .. 2^32-1 bytes with few bytes present, nesting 60..66, 100, 1000, 20000
(variants, variant/array towers, struct/array towers at the signature limits) through validate_raw, the Param decoder,
the typed decoders, the body parser and the header decoder: limit exceeded => error, on both builds, without crash.
Send path: an array of 2^26 bytes is accepted and announced as 2^26, one of 2^26+1 (+4, +8, +9 for wider elements) is
refused, through the slice fast path, the per-element path, the typed HashMap path and the Param array and Param dict
paths; Param trees nested 64 / 65 levels; messages of 2^27 - 1, 2^27, 2^27 + 1, 2^27 + 8 bytes in total (header + padding + body), Param trees pushed through push_old_param and through the typed push of params::Variant; TYPED values
of self-referential types nested up to and beyond 64 levels are pushed, marshalled and sent over a real connection: the
typed marshaller counts no nesting (known finding D21s), everything else that exceeds a limit on send is a violation.
The expected verdicts are computed here from the protocol's numbers, independently of the models; the extracted
marshaller model (ocaml/wire) is compared on the nesting cases as the tie for the theorems in Properties/C18.v.
"""
import os

import vlib
import wiregen as wg
from checks import c04

MAXA = 1 << 26
MAXM = 1 << 27
KIB = 1024


def first16(bo, body_len, hfl, typ=1, serial=5, version=1, endian=None):
    e = endian if endian is not None else (ord("l") if bo == "le" else ord("B"))
    return bytes([e, typ, 0, version]) + c04.u32(bo, body_len) + c04.u32(bo, serial) + c04.u32(bo, hfl)


def announced(hfl, body_len):
    h = 12 + 4 + hfl
    return h + (-h) % 8 + body_len


def gen_recv(g):
    r = g.r
    cases = []
    pairs = []
    for hfl in (0, 8, MAXA - 8, MAXA - 1, MAXA, MAXA + 1, MAXA + 8, MAXM, (1 << 32) - 1):
        for body in (0, 1, MAXA, MAXM - 16 - hfl - 1 if hfl < MAXA + 2 else 0, MAXM - 16 - hfl if hfl < MAXA + 2 else 0,
                     MAXM - 16 - hfl + 1 if hfl < MAXA + 2 else 0, MAXM, (1 << 32) - 1):
            if 0 <= body < (1 << 32):
                pairs.append((hfl, body))
    pairs = sorted(set(pairs))
    if not g.thorough:
        # all rejected announcements are cheap; of the accepted ones (each may reserve up to 128 MiB) keep the boundary ones
        keep = [p for p in pairs if p[0] > MAXA or announced(*p) > MAXM]
        acc = [p for p in pairs if not (p[0] > MAXA or announced(*p) > MAXM)]
        acc_b = [p for p in acc if announced(*p) >= MAXM - 8 or p[0] in (MAXA, MAXA - 1) or announced(*p) < 64]
        pairs = keep + acc_b[:14]
    for hfl, body in pairs:
        for bo in ("le", "be"):
            for k in ([0, 1, 8, 32] if g.thorough else [r.choice([0, 1]), r.choice([8, 32])]):
                tail = bytes(r.choice([0, 0, 1, 255, r.randrange(256)]) for _ in range(k))
                total = announced(hfl, body)
                reject = hfl > MAXA or total > MAXM
                c = c04.Case("recv:" + ("reject" if reject else "within"), "RX %s" % c04.hx(first16(bo, body, hfl) + tail), 16 + k,
                             note="hfl=%d body_len=%d announced=%d" % (hfl, body, total))
                c.reject = reject
                c.limit = reject
                c.total = total
                cases.append(c)
    # fixed headers that are wrong in another way: rejected as soon as 16 bytes are there
    for bad in (dict(endian=0x41), dict(typ=0), dict(typ=9), dict(version=2), dict(serial=0)):
        c = c04.Case("recv:badheader", "RX %s" % c04.hx(first16("le", MAXM - 100, 64, **bad)), 16, note=str(bad))
        c.reject = True
        c.total = 0
        cases.append(c)
    return cases


def judge_recv(c, res, build):
    if res.status in c04.CRASH or res.status not in ("ok", "err"):
        return "receive path [%s build]: %s instead of a message or an error (%s; %s)" % (build, res.status, c.note, res.raw[:120])
    peak = res.num("peak")
    kind = res.f.get("kind")
    if c.reject:
        # recognised by the error, not by the clock: a refusal is the limit error (or, for a fixed header that is invalid in another
        # way, a decoding error); waiting for the announced bytes would end as TimedOut
        if res.status != "err" or kind in ("timedout", "closed", None):
            return "receive path [%s build]: an announcement beyond the limits was not refused (%s; %s)" % (build, c.note, res.raw[:120])
        if getattr(c, "limit", False) and kind != "limit":
            return "receive path [%s build]: an announcement beyond the limits ended with another error than the limit error (%s; %s)" % (build, c.note, res.raw[:120])
        if peak > 64 * KIB:
            return "receive path [%s build]: %d bytes allocated for a refused announcement (%s)" % (build, peak, c.note)
    else:
        if kind == "limit":
            return "receive path [%s build]: an announcement within the limits was refused with the limit error (%s; %s)" % (build, c.note, res.raw[:120])
        if peak > MAXM + 64 * KIB:
            return "receive path [%s build]: %d bytes allocated, more than the largest message (%s)" % (build, peak, c.note)
        if peak > max(c.total, 16) + 64 * KIB:
            return "receive path [%s build]: %d bytes allocated for an announced message of %d bytes (%s)" % (build, peak, c.total, c.note)
    return None


# level patterns of the send side, cycled outermost first: v variant, d dict a{y..}, a array, s struct; capitals = the by-reference
# containers (DictRef, ArrayRef, StructRef)
SEND_PATTERNS = ["vd", "dv", "vD", "Dv", "vda", "vsd", "vdd", "vads", "vSAD", "vdvs", "v" + "d" * 15, "v" + "D" * 15, "v" + "a" * 7 + "d" * 7 + "s" * 7, "vA", "vS"]


def gen_send(g):
    cases = []

    def add(line, ok, note, model=None):
        c = c04.Case("send", line, 0, note=note, model=model)
        c.want_ok = ok
        cases.append(c)
    for bo in ("le", "be"):
        add("SB u8 %s %d" % (bo, MAXA), True, "byte array of exactly 2^26 bytes")
        add("SB u8 %s %d" % (bo, MAXA + 1), False, "byte array of 2^26+1 bytes")
        add("SB u64 %s %d" % (bo, MAXA), True, "u64 array with 2^26 bytes of content (le: slice fast path, be: per element)")
        add("SB u64 %s %d" % (bo, MAXA + 8), False, "u64 array with 2^26+8 bytes of content")
    add("SB bool le %d" % MAXA, True, "bool array (per-element path) with 2^26 bytes of content")
    add("SB bool le %d" % (MAXA + 4), False, "bool array with 2^26+4 bytes of content")
    add("SB pstr le %d" % MAXA, True, "Param array of strings with 2^26 bytes of content")
    add("SB pstr le %d" % (MAXA + 8), False, "Param array of strings with 2^26+8 bytes of content")
    for bo in ("le", "be"):
        add("SB dicts %s %d" % (bo, MAXA), True, "typed HashMap<u32, String> with exactly 2^26 bytes of content")
        add("SB dicts %s %d" % (bo, MAXA + 9), False, "typed HashMap<u32, String> with 2^26+9 (or +16) bytes of content")
        add("SB pdict %s %d" % (bo, MAXA), True, "Param dict a{us} with exactly 2^26 bytes of content")
        add("SB pdict %s %d" % (bo, MAXA + 9), False, "Param dict a{us} with 2^26+9 (or +16) bytes of content")
    if g.thorough:
        add("SB dict le %d" % MAXA, True, "a{uu} with 2^26 bytes of content")
        add("SB dict le %d" % (MAXA + 8), False, "a{uu} with 2^26+8 bytes of content")
    for d in (1, 32, 63, 64, 65, 66, 100, 1000):
        # the extracted marshaller model on the same tree (variants only: the token syntax needs the signatures)
        toks = ["y", "7"]
        sig = "y"
        for _ in range(d):
            toks = ["v", sig] + toks
            sig = "v"
        add("SD v %d" % d, d <= 64, "Param tree of %d nested variants" % d, model="MP le 0 " + " ".join(toks) if d <= 100 else None)
        add("SD mix %d" % d, d <= 64, "Param tree of %d nested variant/struct/array levels" % d)
        # the typed entry of the Param marshaller: push_param(&params::Variant) = marshal_variant_param
        add("SD tv %d" % d, d <= 64, "params::Variant pushed through the typed API, %d variant levels in all" % d,
            model="MP le 0 " + " ".join(toks) if d <= 100 else None)
    # every kind of level (dict levels included, owned and by reference) alone with variants and mixed with the others, at and
    # around the limit and far beyond it; the extracted marshaller model runs on the same tree (token syntax of ocaml/wire)
    for pi, pat in enumerate(SEND_PATTERNS):
        for d in (1, 32, 63, 64, 65, 66, 100, 128, 1000):
            toks, sig = ["y", "7"], "y"
            for lvl in reversed(range(d)):
                k = pat[lvl % len(pat)].lower()
                if k == "v":
                    toks, sig = ["v", sig] + toks, "v"
                elif k == "a":
                    toks, sig = ["a", sig, "1"] + toks, "a" + sig
                elif k == "s":
                    toks, sig = ["r", "1"] + toks, "(" + sig + ")"
                else:
                    toks, sig = ["e", "y", sig, "1", "y", "3"] + toks, "a{y" + sig + "}"
            lv = "".join(pat[i % len(pat)] for i in range(d))
            add("SD p:%s %d" % (pat, d), d <= 64, "Param tree of %d nested levels of pattern %s (%d dict levels)" % (d, pat, lv.lower().count("d")),
                model="MP %s 0 " % ("le" if pi % 2 == 0 else "be") + " ".join(toks) if d <= 100 else None)
    # typed values of self-referential types (a derived enum, a dbus_variant_sig! enum, a Vec of the former)
    for kind in ("drec", "msrec", "vec"):
        for d in (1, 33, 61, 63, 64, 65, 66, 67, 101, 401):
            c = c04.Case("send:typed", "ST %s %d" % (kind, d), 0, note="typed %s value built with depth parameter %d" % (kind, d))
            c.want_ok = None
            cases.append(c)
    add("SM le %d 0 0" % MAXA, True, "message with one 2^26 byte array")
    add("SM le %d %d 0" % (MAXA, MAXA), False, "message whose body alone has 2^27+8 bytes")
    return cases


def judge_send(c, res, build):
    if res.status in c04.CRASH or res.status not in ("ok", "err"):
        return "send path [%s build]: %s (%s; %s)" % (build, res.status, c.note, res.raw[:120])
    op = c.line.split(" ")[0]
    if op == "ST":
        nesting = res.num("nesting")
        sent = res.status == "ok" and res.f.get("sent") == "true"
        if nesting <= 64:
            if not sent or res.f.get("validates") != "true" or res.num("onwire") != res.num("total"):
                return "send path [%s build]: a typed value nested %d levels was not sent intact (%s)" % (build, nesting, res.raw[:160])
            return None
        if sent or res.f.get("pushed") == "true" or res.f.get("marshalled") == "true":
            return "KNOWN:D21s send path [%s build]: a typed value nested %d levels deep was pushed, marshalled%s although the protocol allows 64 (own validate: %s)" % (
                build, nesting, " and sent" if sent else "", res.f.get("validates"))
        return None
    if op == "SM":
        total = res.num("total")
        if res.f.get("pushed") != "true":
            return "send path [%s build]: could not build the test message (%s)" % (build, res.raw[:120])
        if getattr(c, "want_total", total) != total:
            return "send path [%s build]: the test message has %d bytes, %d were intended (%s)" % (build, total, c.want_total, c.note)
        if (res.status == "ok") != (total <= MAXM):
            return "send path [%s build]: marshal returned %s for a message of %d bytes (%s)" % (build, res.status, total, c.note)
        return None
    if (res.status == "ok") != c.want_ok:
        return "send path [%s build]: %s for %s" % (build, "accepted" if res.status == "ok" else "refused", c.note)
    if op == "SB" and res.status == "ok":
        n = int(c.line.split(" ")[3])
        if res.num("announced") != n:
            return "send path [%s build]: the array length on the wire is %d, the content has %d bytes (%s)" % (build, res.num("announced"), n, c.note)
    if op == "SD" and res.status == "ok" and res.f.get("validates") != "true":
        return "send path [%s build]: the library's own validation refuses what it marshalled (%s)" % (build, c.note)
    return None


def gen_send_boundary(g, exe):
    """messages of exactly 2^27 - 1, 2^27, 2^27 + 1, 2^27 + 8 bytes in total, i.e. header + padding + body (the header length is learned
    from a probe): a limit applied to the body alone would accept the last two"""
    # the header depends on the body signature ("ayay"): learn its padded length from a small message of the same shape
    probe = c04.run_impl(exe, ["SM le 8 8 0"])[0]
    hdr = probe.num("hdr")
    cases = []
    # body = 4 + l1 + 4 + l2 with l1 = 2^26 (a multiple of 4, so the second array needs no padding)
    for delta in (-1, 0, 1, 8):
        l1 = MAXA
        l2 = MAXM + delta - hdr - 8 - l1
        if 0 < l2 <= MAXA:
            c = c04.Case("send", "SM le %d %d 0" % (l1, l2), 0, note="message of 2^27%+d bytes in total (header %d + body)" % (delta, hdr))
            c.want_ok = delta <= 0
            c.want_total = MAXM + delta
            cases.append(c)
    return cases


def run(ctx):
    thorough = ctx.tier == "thorough"
    ctx.rule = ("receive cases = (byte order, announced header-field-array length, announced body length, 0..32 following bytes) over the "
                "boundary values 2^26-8..2^26+8, 2^27-1..2^27+1 of the total, 2^32-1, and fixed headers invalid in other ways, each run "
                "against a real connection with the allocator high-water mark recorded; decode cases = C04's nesting and length bombs with "
                "the verdict the limits demand; send cases = arrays at and just above 2^26 bytes through the slice, per-element, typed "
                "HashMap<u32,String>, Param array and Param dict paths (a{uu} with 2^23 entries: thorough only), Param trees 1..1000 deep whose levels cycle through "
                "patterns of variant / struct / array / dict (owned and by-reference) levels, "
                "typed self-referential values (derived enum, dbus_variant_sig! enum, Vec of them) nested 3..401 levels pushed, marshalled and "
                "sent over a real connection, messages of exactly 2^27 - 1 .. 2^27 + 8 bytes in total, Param variants through the typed push of params::Variant; every case on the release and the debug build; receive verdicts: "
                "refused = the call ends with the limit error (never TimedOut) and < 64 KiB allocated; accepted = at most the announced size "
                "(<= 2^27) allocated; "
                "non-trivial = the case sits at or beyond a limit; distinct = distinct case lines")
    ctx.trusted = ["Coq 8.16.1 kernel", "extraction (ExtrOcamlBasic only) + ocaml/wire/driver.ml", "harness c04 binary (supervisor, worker, wrapping allocator)",
                   "the limits 2^27 / 2^26 / 64 as my reading of the D-Bus specification"]
    ctx.assumptions = ["usize 64 bit", "typed API: nesting is bounded by the program text for types that do not contain themselves; it is not counted (known finding D21 for self-referential types)"]
    if not os.environ.get("VERIF_SKIP_PROOF"):
        ctx.try_proof()
    builds, param_size, info = c04.build_all()
    drv = c04.build_model()
    c04.clean_socks()
    g = c04.Gen(ctx, drv, thorough, name="c18")
    # ---- decoders: limit exceeded => error (the C04 generators carry the verdicts)
    dec = c04.gen_nesting(g) + c04.gen_length(g) + [c for c in c04.gen_header(g) if "bomb" in c.kind]
    # params::Variant through the typed API (D22, fixed in /repo eaf0537: it did not count its own level)
    for n in (62, 63, 64, 65):
        data = c04.nested_variants(n)
        c = c04.Case("bomb:paramvariant", "UT ParamVariant le %d 0 0 %s" % (g.phase(), c04.hx(data)), len(data), expect="ok" if n + 1 <= 64 else "err",
                     note="%d nested variants read as params::Variant" % (n + 1))
        dec.append(c)
        dec += [c04.Case("bomb:paramvariant", b.line, b.inlen, expect=c.expect, note=c.note) for b in c04.body_cases("bomb:paramvariant", "ParamVariant", "v", "le", 0, data, g.phase(), ["get"])]
    recv = gen_recv(g)
    send = gen_send(g)
    # corpus first: <expected> <harness line>
    for c in c04.load_corpus("C18"):
        exp, line = c.line.split(" ", 1)
        op = line.split(" ")[0]
        k = c04.Case("corpus", line, len(line.split(" ")[-1]) // 2, note="corpus")
        if op == "RX":
            k.reject = exp == "reject"
            k.limit = k.reject
            k.total = 0
            recv.insert(0, k)
        elif op in ("SB", "SD", "SM"):
            k.want_ok = exp == "ok"
            send.insert(0, k)
        else:
            k.expect = exp
            dec.insert(0, k)
    send += gen_send_boundary(g, builds[0][1])
    model_lines = [c.model for c in dec + send if c.model]
    ok, mout, err = vlib.par_run_lines(drv, [], model_lines)
    if not ok:
        ctx.tie_broken("extracted model crashed", err)
        mout = ["?"] * len(model_lines)
    it = iter(mout)
    mres = {id(c): next(it) for c in dec + send if c.model}
    found = []
    for build, exe in builds:
        res_dec = c04.run_impl(exe, [c.line for c in dec])
        res_recv = c04.run_impl(exe, [c.line for c in recv])
        res_send = c04.run_impl(exe, [c.line for c in send], timeout=2400)
        first = build == builds[0][0]
        for group, cases, results in (("dec", dec, res_dec), ("recv", recv, res_recv), ("send", send, res_send)):
            for c, res in zip(cases, results):
                if first:
                    ctx.case(c.line, nontrivial=True, sample={"case": c.line[:120], "note": c.note, "result": res.raw[:100]} if ctx.evaluations % 397 == 0 else None)
                    ctx.count("kind:" + c.kind)
                    ctx.count("status:" + res.status)
                else:
                    ctx.evaluations += 1
                known = False
                if res.status == "skipped":
                    ctx.count("skipped_after_timeouts[%s]" % build)
                    continue
                if group == "dec":
                    why, known = c04.judge(ctx, c, res, build, param_size)
                    if why is None and (c.selfref_depth or 0) > 64 and res.status == "ok":
                        why, known = "typed decoder [%s build] accepted a value nested %d levels deep (%s)" % (build, c.selfref_depth, c.line[:40]), True
                elif group == "recv":
                    why = judge_recv(c, res, build)
                else:
                    why = judge_send(c, res, build)
                    if why and why.startswith("KNOWN:D21s "):
                        if ctx.known("D21s", "the typed marshaller counts no nesting: %s" % why[len("KNOWN:D21s "):][:170]):
                            ctx.count("known:D21s")
                            continue
                        why = why[len("KNOWN:D21s "):]
                if why and known and ctx.known("D21", "typed decoder on a self-referential user type does not count nesting: %s" % why[:140]):
                    ctx.count("known:D21")
                    continue
                if why:
                    ctx.disagreements_checked += 1
                    found.append((c04.severity(res), why, c04.violation_data(c, res, build)))
                    continue
                m = mres.get(id(c))
                if m is not None:
                    ms = m.split(" ")[0]
                    if ms in ("ok", "err") and ms != res.status:
                        ctx.disagreements_checked += 1
                        ctx.tie_broken("correspondence: model and implementation disagree on a limit case", "%s\nimpl[%s]: %s\nmodel: %s" % (c.line[:300], build, res.raw, m[:100]))
                    elif ms not in ("ok", "err"):
                        ctx.disagreements_checked += 1
                        ctx.tie_broken("correspondence: the model reaches %s" % ms, (c.model or "")[:300])
        if first:
            peaks = [(c.note, r.num("peak")) for c, r in zip(recv, res_recv)]
            ctx.extra["recv_peak_rejected_max"] = max([p for (c, (_, p)) in zip(recv, peaks) if c.reject] or [0])
            ctx.extra["recv_peak_within_max"] = max([p for (c, (_, p)) in zip(recv, peaks) if not c.reject] or [0])
    c04.report(ctx, found)
    c04.clean_socks()
    ctx.extra["builds"] = [b for b, _ in builds]
    ctx.extra["harness_info"] = info


def replay(ctx, body):
    return c04.replay(ctx, body)
