"""C20 - Peer interface replies correctly; the machine id is a stable 32-hex-digit id.

Proof: coq/Properties/C20.v (format `{:016X}{:08X}{:08X}` with minimum-width semantics always yields 32 hex
digits for every draw and clock value; a stored id is returned unchanged; handle_peer_message / filter_peer
answer exactly Ping and GetMachineId).  coq/History/PeerOld.v keeps the refutation of the old format.
Tie: the real handle_peer_message runs on a scripted connection inside a private mount namespace
(`unshare -rm`) where a fixture file is bind-mounted over /dev/urandom and a private tmpfs over /tmp, so the
12 random bytes are chosen by the check; stored id, reply bodies and replies read at the peer are compared
with the extracted model run on the same draw (the clock is an oracle: it is read back from the id's tail).  Without namespace support the check falls back to real draws and says so.
"""
import json
import os
import shutil
import subprocess
import tempfile

import vlib

PEER = "org.freedesktop.DBus.Peer"
HEXDIGITS = set(b"0123456789abcdefABCDEF")


def hx(s):
    b = s.encode() if isinstance(s, str) else s
    return b.hex() if b else "-"


def unhx(h):
    return b"" if h == "-" else bytes.fromhex(h)


def have_namespace():
    try:
        p = subprocess.run(["unshare", "-rm", "sh", "-c", "mount -t tmpfs tmpfs /tmp && echo ok"],
                           stdout=subprocess.PIPE, stderr=subprocess.PIPE, text=True, timeout=30)
        return p.returncode == 0 and "ok" in p.stdout
    except Exception:
        return False


def run_ns(exe, fixture, lines, timeout=900, tmpdir=None, setenv=None, unsetenv=(), tmpfs_size=None):
    """the harness inside a private mount namespace: fixture over /dev/urandom (None: the real one), and over
    /tmp either a fresh tmpfs (optionally of a given size) or (tmpdir) a scratch directory that outlives the
    process, so that a later process can find what an earlier one stored"""
    env = dict(vlib.ENV)
    env.update({"VERIF_C20_NS": "1"})
    if fixture:
        env["VERIF_C20_FIXTURE"] = fixture
    for k in unsetenv:
        env.pop(k, None)
    env.update(setenv or {})
    bind = 'mount --bind "$1" /dev/urandom && ' if fixture else ""
    if tmpdir is None:
        opt = ("-o size=%s " % tmpfs_size) if tmpfs_size else ""
        script = bind + 'mount -t tmpfs ' + opt + 'tmpfs /tmp && exec "$2"'
    else:
        script = bind + 'mount --bind "$3" /tmp && exec "$2"'
    p = subprocess.run(["unshare", "-rm", "sh", "-c", script, "sh", fixture or "", exe, tmpdir or ""], input="\n".join(lines) + "\n",
                       stdout=subprocess.PIPE, stderr=subprocess.PIPE, text=True, timeout=timeout, env=env)
    return p.returncode, [l[2:] for l in p.stdout.split("\n") if l.startswith("R ")], p.stderr


def run_plain(exe, lines, timeout=900):
    p = subprocess.run([exe], input="\n".join(lines) + "\n", stdout=subprocess.PIPE, stderr=subprocess.PIPE,
                       text=True, timeout=timeout, env=vlib.ENV)
    return p.returncode, [l[2:] for l in p.stdout.split("\n") if l.startswith("R ")], p.stderr


def run_model(drv, lines):
    p = subprocess.run([drv], input="\n".join(lines) + "\n", stdout=subprocess.PIPE, stderr=subprocess.PIPE,
                       text=True, timeout=900)
    return p.returncode, p.stdout.split("\n")[:-1], p.stderr


def fields(line):
    d = {}
    for tok in line.split(" "):
        k, _, v = tok.partition("=")
        d[k] = v
    return d


# ------------------------------------------------------------------ generators

def nibble_zeros(v, width):
    s = "%0*x" % (width, v)
    return len(s) - len(s.lstrip("0"))


def words(b):
    r1 = int.from_bytes(b[0:8], "little")
    r2 = b[8] | (b[9] << 8) | (b[1] << 16) | (b[11] << 24)     # rand[1] twice, as in the source
    return r1, r2


def draw_with(r, k1, k2):
    """12 bytes whose two words have k1 resp. k2 leading zero hex digits (None when impossible)"""
    for _ in range(4000):
        if k1 == 16:
            r1 = 0
        else:
            bits = 4 * (16 - k1)
            r1 = r.randrange(1 << (bits - 4), 1 << bits)
        b = bytearray(r1.to_bytes(8, "little") + bytes(4))
        if k2 == 8:
            want = 0
        else:
            bits = 4 * (8 - k2)
            want = r.randrange(1 << (bits - 4), 1 << bits)
        b[8], b[9], b[11] = want & 0xFF, (want >> 8) & 0xFF, (want >> 24) & 0xFF
        b[10] = r.randrange(256)
        g1, g2 = words(b)
        if nibble_zeros(g1, 16) == k1 and nibble_zeros(g2, 8) == k2:
            return bytes(b)
    return None


def gen_draws(r, thorough):
    out = [bytes(12), b"\xff" * 12, bytes(range(1, 13)), b"\x23\x01" + bytes(10),          # 0x123: the pinned tree's witness
           bytes(7) + b"\x10" + bytes(4), bytes(7) + b"\x0f" + bytes(4), bytes(11) + b"\x10", bytes(11) + b"\x0f",
           b"\x00\xff" + bytes(10), bytes(10) + b"\xff\x00"]
    for k1 in range(17):
        for k2 in range(9):
            d = draw_with(r, k1, k2)
            if d is not None:
                out.append(d)
    for _ in range(4000 if thorough else 60):
        out.append(bytes(r.randrange(256) for _ in range(12)))
    return list(dict.fromkeys(out))


IFACES = [None, PEER, "org.freedesktop.DBus.Peers", "org.freedesktop.DBus", "org.freedesktop.dbus.peer",
          "org.freedesktop.DBus.Introspectable", "rg.freedesktop.DBus.Peer",
          "com.example.org.freedesktop.DBus.Peer", "org.freedesktop.DBus.Peer.x"]          # suffix / prefix near misses
MEMBERS = [None, "Ping", "GetMachineId", "ping", "Pings", "GetMachineID", "Introspect", "Pin", "GetMachineI",
           "XPing", "PingX", "GetMachineIdX", "XGetMachineId"]
FLAGS = [0, 1, 2, 4, 255]            # 1 = NO_REPLY_EXPECTED: the property still asks for exactly one reply
DESTS = [None, "org.me", ":1.1"]
BODIES = [None, "x", "hello"]
# Round 4: fields of the incoming message that handle_peer_message must NOT look at.  The object path
# (None = a message without a PATH field, built by hand), the num_fds header field, the shape of the body.
OBJECTS = [None, "/", "/x", "/org/freedesktop/DBus", "/org/freedesktop/DBus/Local", "/org/freedesktop/DBus/Peer",
           "/org/freedesktop", "/org/freedesktop/dbus", "/org/freedesktop/DBus/Peer/Ping",
           "/a/b/c/d/e/f/g/h/i/j/k/l/m/n/o/p", "/" + "/".join(["long_path_element_%02d" % i for i in range(40)])]
NUMFDS = [None, 0, 1]
BODYKINDS = ["-", "u", "2"]          # "-": the body string alone (None: empty body); "u": one u32; "2": a string and a u32
BODYFORMS = [(None, "-"), ("x", "-"), (None, "u"), ("hello", "2")]


def rand_extra(r):
    return (r.choice(OBJECTS), r.choice(NUMFDS), r.choice(BODYKINDS))


def gen_peer_lines(r, thorough, with_get_id):
    """(iface, member, typ, serial, sender, reply-serial field, flags, destination, body string,
        object path, num_fds, body kind)"""
    cases = []
    for iface in IFACES:
        for member in MEMBERS:
            if member == "GetMachineId" and not with_get_id:      # the harness refuses it outside a namespace
                continue
            exact = iface == PEER and member in ("Ping", "GetMachineId")
            for typ in "csrei":
                reps = 3 if thorough else 1
                for _ in range(reps):
                    cases.append((iface, member, typ, r.choice([1, 77, 4294967295, 12345]), r.choice([None, ":1.9", "org.x.y"]),
                                  r.choice([None, None, 999]), r.choice(FLAGS), r.choice(DESTS), r.choice(BODIES)) + rand_extra(r))
                if exact:
                    # the calls the property is about: every flag value (incl. NO_REPLY_EXPECTED), with and without
                    # body / destination / sender / a REPLY_SERIAL field of their own
                    for flags in FLAGS:
                        for sender in (None, ":1.9", "org.x.y"):
                            cases.append((iface, member, typ, r.choice([1, 77, 4294967295]), sender, r.choice([None, 999]),
                                          flags, r.choice(DESTS), r.choice(BODIES)) + rand_extra(r))
                    # ... and every object path (incl. none at all, the bus's own paths, deep and long ones) with
                    # every num_fds field and body shape for the calls; every object path for the other types
                    for obj in OBJECTS:
                        combos = [(f, b) for f in NUMFDS for b in BODYFORMS] if typ == "c" else [(r.choice(NUMFDS), r.choice(BODYFORMS))]
                        for fds, (body, bk) in combos:
                            cases.append((iface, member, typ, r.choice([1, 77, 4294967295]), r.choice([None, ":1.9", "org.x.y"]),
                                          r.choice([None, 999]), r.choice(FLAGS), r.choice(DESTS), body, obj, fds, bk))
                elif (iface == PEER or member in ("Ping", "GetMachineId")) and typ == "c":
                    # near misses: one more call per object path (must stay unanswered whatever the path)
                    for obj in OBJECTS:
                        fds, (body, bk) = r.choice(NUMFDS), r.choice(BODYFORMS)
                        cases.append((iface, member, typ, r.choice([1, 77, 4294967295]), r.choice([None, ":1.9", "org.x.y"]),
                                      r.choice([None, 999]), r.choice(FLAGS), r.choice(DESTS), body, obj, fds, bk))
    return cases


def full_case(c):
    """cases recorded before round 4 have 9 components: object path /x, no num_fds field, plain body"""
    c = tuple(c)
    return c if len(c) == 12 else c[:9] + ("/x", None, "-")


def peer_line(c, model=False):
    """the harness line; model=True: the model driver's line (it has no body-kind argument: the model's message
    carries the object path and num_fds as fields it never reads, and its verdict must hold for every body)"""
    iface, member, typ, serial, sender, rs, flags, dest, body, obj, fds, bk = full_case(c)
    o = lambda x: hx(x) if x is not None else "-"
    line = "p %s %s %s %d %s %s %d %s %s %s %s" % (o(iface), o(member), typ, serial, o(sender), rs if rs is not None else "-",
                                                 flags, o(dest), o(body), o(obj), fds if fds is not None else "-")
    return line if model else line + " " + bk


def is_machine_id(b):
    return len(b) == 32 and all(c in HEXDIGITS for c in b)


def reply_ok(rep, serial, sender):
    """exactly one method return with the call's serial, addressed to the caller; returns (why, body)"""
    if rep == "-" or "|" in rep or ";" not in rep:
        return "not exactly one message was written (%s)" % rep, None
    typ, rs, dest, codes, body = rep.split(";")
    if typ != "2":
        return "the message written is not a method return", None
    if rs != str(serial):
        return "the reply carries reply serial %s instead of the call's serial %s" % (rs, serial), None
    if dest != (hx(sender) if sender is not None else "-"):
        return "the reply is not addressed to the caller", None
    return None, (body, codes)


def judge_peer(case, o):
    """the property on one observed call of handle_peer_message / filter_peer"""
    iface, member, typ, serial, sender, rs, flags, dest, body_in = tuple(case)[:9]
    peer_header = iface == PEER and member in ("Ping", "GetMachineId")
    is_peer = typ == "c" and peer_header                    # a method CALL to Ping / GetMachineId on the Peer interface
    if o["filter"] != ("true" if peer_header else "false"):
        return "filter_peer %s a header that %s Peer.Ping/GetMachineId" % (
            "accepts" if o["filter"] == "true" else "rejects", "names" if peer_header else "does not name")
    if not is_peer:
        kind = {"c": "method call", "s": "signal", "r": "method return", "e": "error", "i": "message of invalid type"}[typ]
        if o["handled"] != "false":
            return "a %s that is not a Ping/GetMachineId call on the Peer interface was reported as handled=%s" % (kind, o["handled"])
        if o["written"] != "-":
            return "a reply was written for a %s that is not a Ping/GetMachineId call on the Peer interface" % kind
        if o["post"] != o["pre"]:
            return "the stored machine id changed while handling a message that is not a Peer call"
        return None
    if o["handled"] != "true":
        return "a %s call on the Peer interface was reported as handled=%s" % (member, o["handled"])
    why, bc = reply_ok(o["written"], serial, sender)
    if why:
        return why
    body, codes = bc
    if member == "Ping":
        return None if body == "-" else "the Ping reply is not empty"
    if not body.startswith("s:"):
        return "the GetMachineId reply does not carry one string"
    idb = unhx(body[2:])
    if o["post"] != "unobserved" and hx(idb) != o["post"]:
        return "the id returned is not the id stored"
    if o["pre"] not in ("none", "unobserved"):
        # a stored id (written by an earlier call of the same code) must come back unchanged
        return None if hx(idb) == o["pre"] else "GetMachineId did not return the stored id"
    if not is_machine_id(idb):
        return "the freshly created machine id is not a 32-digit hexadecimal string: %r" % idb.decode("latin-1")
    return None


def judge_env(outs):
    """environment sweep: ids returned by repeated calls in one process and by a later process in the same
    environment are equal and 32 hexadecimal digits"""
    ids = []
    for o in outs:
        for i in (1, 2, 3):
            if o.get("handled%d" % i) != "true":
                return "GetMachineId was reported as handled=%s" % o.get("handled%d" % i), ids
            why, bc = reply_ok(o.get("r%d" % i, "-"), 77, ":1.9")
            if why:
                return why, ids
            if not bc[0].startswith("s:"):
                return "the GetMachineId reply does not carry one string", ids
            ids.append(unhx(bc[0][2:]))
    if not is_machine_id(ids[0]):
        return "the machine id is not a 32-digit hexadecimal string: %r" % ids[0].decode("latin-1"), ids
    if any(x != ids[0] for x in ids[:3]):
        return "the machine id changed between calls in one process although the stored id was not removed", ids
    if any(x != ids[0] for x in ids[3:]):
        return "a later process in the same environment did not return the id stored by the earlier one", ids
    return None, ids


def env_sweep(ctx, exe, drv, r, tmpd):
    """the process environment as an input dimension of the check (the model has none: the code uses a fixed
    path, so the unchanged code must behave identically in all of them)"""
    import concurrent.futures as cf
    configs = [("TMPDIR unset", {}, ("TMPDIR",)),
               ("TMPDIR=/tmp", {"TMPDIR": "/tmp"}, ()),
               ("TMPDIR=other existing writable dir", {"TMPDIR": "@ALT@"}, ()),
               ("TMPDIR=nonexistent dir", {"TMPDIR": "@ALT@/does/not/exist"}, ()),
               ("TMPDIR=dir below /tmp", {"TMPDIR": "/tmp/sub"}, ()),
               ("HOME=other dir, XDG_RUNTIME_DIR=other dir", {"HOME": "@ALT@", "XDG_RUNTIME_DIR": "@ALT@"}, ("TMPDIR",)),
               ("HOME, XDG_RUNTIME_DIR, TMPDIR unset", {}, ("HOME", "XDG_RUNTIME_DIR", "TMPDIR")),
               ("HOME=nonexistent, XDG_RUNTIME_DIR=nonexistent", {"HOME": "@ALT@/nope", "XDG_RUNTIME_DIR": "@ALT@/nope"}, ())]

    def one(k):
        name, setenv, unset = configs[k]
        td = os.path.join(tmpd, "envtmp_%d" % k)
        alt = os.path.join(tmpd, "envalt_%d" % k)
        os.makedirs(os.path.join(td, "sub"))
        os.makedirs(alt)
        fx = os.path.join(tmpd, "envrandom_%d" % k)
        open(fx, "wb").write(bytes(12))
        setenv = {a: b.replace("@ALT@", alt) for a, b in setenv.items()}
        rr = ctx.sub_rng("env%d" % k)
        draws = [bytes(rr.randrange(256) for _ in range(12)) for _ in range(6)]
        res = []
        for half in (draws[:3], draws[3:]):           # an earlier and a later process, same environment
            rc, outs, err = run_ns(exe, fx, ["e " + " ".join(d.hex() for d in half)], tmpdir=td, setenv=setenv, unsetenv=unset)
            res.append((rc, outs, err))
        return name, draws, res

    with cf.ThreadPoolExecutor(len(configs)) as ex:
        results = list(ex.map(one, range(len(configs))))
    for name, draws, res in results:
        if any(rc != 0 or len(outs) != 1 or outs[0] in ("nofixture", "refused") for rc, outs, err in res):
            ctx.tie_broken("harness c20 crashed in the environment sweep (%s)" % name, "\n".join(e[-800:] for _, _, e in res))
            continue
        outs = [fields(o[0]) for _, o, _ in res]
        why, ids = judge_env(outs)
        ctx.case(("env", name), nontrivial=True)
        if name.startswith("TMPDIR=other"):
            ctx.samples[:0] = [{"environment": name, "ids_of_6_calls_in_2_processes": [x.decode("latin-1") for x in ids[:6]]}]
            del ctx.samples[8:]
        ctx.count("env:" + name)
        # the model: the id of the first draw, whatever the environment
        try:
            secs = int(ids[0][-8:], 16) if ids else 0
        except ValueError:
            secs = 0
        rcm, mouts, errm = run_model(drv, ["u %s %s %d" % (draws[0].hex(), draws[1].hex(), secs)])
        expect = fields(mouts[0]).get("file1") if rcm == 0 and mouts else None
        same = bool(ids) and len(ids) == 6 and all(hx(x) == expect for x in ids)
        if why or not same:
            ctx.disagreements_checked += 1
            data = {"kind": "env", "environment": name, "draws": [d.hex() for d in draws], "impl": [o[0] for _, o, _ in res], "model_id": expect}
            if why:
                ctx.violation("%s [environment: %s]" % (why, name), data)
            else:
                ctx.tie_broken("correspondence: the ids differ from the model's although they are stable 32-hex-digit ids (%s)" % name, str(data))


CLOCK_SHIM_C = r"""
#define _GNU_SOURCE
#include <time.h>
#include <stdlib.h>
#include <dlfcn.h>
/* CLOCK_REALTIME = VERIF_FAKE_SECS seconds since the epoch, for the c20 harness process only */
int clock_gettime(clockid_t id, struct timespec *ts) {
  static int (*real)(clockid_t, struct timespec *) = 0;
  const char *s = getenv("VERIF_FAKE_SECS");
  if (!real) real = (int (*)(clockid_t, struct timespec *)) dlsym(RTLD_NEXT, "clock_gettime");
  if (s && id == CLOCK_REALTIME) { ts->tv_sec = strtoll(s, 0, 10); ts->tv_nsec = 0; return 0; }
  return real(id, ts);
}
"""


def build_clock_shim(tmpd):
    """a tiny LD_PRELOAD library that sets the wall clock of the harness process; None when no C compiler"""
    cc = shutil.which("cc") or shutil.which("gcc")
    if not cc:
        return None
    src = os.path.join(tmpd, "clock_shim.c")
    so = os.path.join(tmpd, "clock_shim.so")
    open(src, "w").write(CLOCK_SHIM_C)
    p = subprocess.run([cc, "-shared", "-fPIC", "-O1", "-o", so, src, "-ldl"], stdout=subprocess.PIPE, stderr=subprocess.STDOUT, text=True)
    return so if p.returncode == 0 and os.path.exists(so) else None


def clock_runs(ctx, exe, drv, r, tmpd):
    """the clock is CHOSEN (LD_PRELOAD shim on the harness process): ids at clock values around the u32
    boundaries must be exactly the model's format_uuid(rand1, rand2, clock mod 2^32)"""
    so = build_clock_shim(tmpd)
    if so is None:
        ctx.count("clock:skipped(no C compiler)")
        ctx.extra["clock_shim"] = "no C compiler: chosen-clock runs skipped (the clock part is then only read back from the id)"
        return
    values = [0, 42, 2 ** 31, 2 ** 32 - 1, 2 ** 32, 2 ** 32 + 5]
    import concurrent.futures as cf

    def one(k):
        fx = os.path.join(tmpd, "clkrandom_%d" % k)
        open(fx, "wb").write(bytes(12))
        rr = ctx.sub_rng("clock%d" % k)
        draws = [bytes(12), bytes(range(1, 13))] + [bytes(rr.randrange(256) for _ in range(12)) for _ in range(2)]
        lines = ["u %s %s" % (d.hex(), bytes(rr.randrange(256) for _ in range(12)).hex()) for d in draws]
        rc, outs, err = run_ns(exe, fx, lines, setenv={"LD_PRELOAD": so, "VERIF_FAKE_SECS": str(values[k])})
        return draws, lines, rc, outs, err

    with cf.ThreadPoolExecutor(len(values)) as ex:
        results = list(ex.map(one, range(len(values))))
    effective = False
    for v, (draws, lines, rc, outs, err) in zip(values, results):
        if rc != 0 or len(outs) != len(lines):
            ctx.tie_broken("harness c20 crashed in the chosen-clock run (clock=%d)" % v, err[-1500:])
            continue
        rcm, mouts, errm = run_model(drv, ["%s %d" % (l, v) for l in lines])
        if rcm != 0 or len(mouts) != len(lines):
            ctx.tie_broken("model driver c20 crashed (chosen-clock run)", errm[-1500:])
            continue
        for d, li, lm in zip(draws, outs, mouts):
            oi, om = fields(li), fields(lm)
            if oi.get("t0") != str(v):
                # the shim did not take effect (statically linked libc?): environment, not a verdict
                ctx.count("clock:shim_not_effective")
                continue
            effective = True
            ctx.case(("clock", v, d), nontrivial=True)
            ctx.count("clock:value=%d" % v)
            same = all(oi.get(k) == om.get(k) for k in ("handled1", "r1", "file1", "handled2", "r2", "file2"))
            why = judge_uuid(oi)
            if why or not same:
                ctx.disagreements_checked += 1
                data = {"kind": "clock", "clock": v, "draw": d.hex(), "impl": li, "model": lm}
                if why:
                    ctx.violation("%s [clock = %d s since the epoch]" % (why, v), data)
                else:
                    ctx.tie_broken("correspondence: at clock %d the id differs from format_uuid(rand1, rand2, clock mod 2^32) although it is a stable 32-hex-digit id" % v, str(data))
    ctx.extra["clock_shim"] = "LD_PRELOAD clock_gettime shim built with cc; clock values %s %s" % (values, "in effect" if effective else "NOT in effect (skipped)")


def judge_enospc(o):
    """disk full at the first call: it may fail (environment) but must not answer with a malformed id;
    once space is free, every call returns one and the same 32-hex-digit id - never an empty one"""
    ids = []
    if o.get("handled1") == "true":
        why, bc = reply_ok(o.get("r1", "-"), 77, ":1.9")
        if why:
            return why
        ids.append(bc[0])
    elif o.get("r1") != "-":
        return "a reply was written although GetMachineId failed"
    for k in ("2", "3"):
        if o.get("handled" + k) != "true":
            return "after space was freed GetMachineId was still reported as handled=%s" % o.get("handled" + k)
        why, bc = reply_ok(o.get("r" + k, "-"), 77, ":1.9")
        if why:
            return why
        ids.append(bc[0])
    for b in ids:
        if not b.startswith("s:") or not is_machine_id(unhx(b[2:])):
            return "after a failed attempt to store the id, the id returned is not a 32-digit hexadecimal string: %r" % (
                unhx(b[2:]).decode("latin-1") if b.startswith("s:") else b)
    if any(b != ids[0] for b in ids):
        return "the machine id changed between calls although the stored id was not removed"
    return None


def enospc_runs(ctx, exe, drv, r, tmpd, thorough):
    """exercise the failure the atomic store is about: /tmp is a tiny tmpfs that is filled up"""
    import concurrent.futures as cf
    sizes = ["4k", "8k", "16k", "64k"] if thorough else ["4k", "8k"]

    def one(k):
        fx = os.path.join(tmpd, "fullrandom_%d" % k)
        open(fx, "wb").write(bytes(12))
        rr = ctx.sub_rng("full%d" % k)
        ds = [bytes(rr.randrange(256) for _ in range(12)) for _ in range(3)]
        rc, outs, err = run_ns(exe, fx, ["n " + " ".join(d.hex() for d in ds)], tmpfs_size=sizes[k])
        return ds, rc, outs, err

    with cf.ThreadPoolExecutor(len(sizes)) as ex:
        results = list(ex.map(one, range(len(sizes))))
    for size, (ds, rc, outs, err) in zip(sizes, results):
        if rc != 0 or len(outs) != 1 or outs[0] in ("nofixture", "refused"):
            ctx.tie_broken("harness c20 crashed in the disk-full run (tmpfs %s)" % size, err[-1500:])
            continue
        oi = fields(outs[0])
        ctx.case(("enospc", size), nontrivial=True)
        ctx.count("enospc:tmpfs=%s first_call=%s" % (size, oi.get("handled1")))
        why = judge_enospc(oi)
        same = True
        if oi.get("full") == "true":
            try:
                secs = int(unhx(oi.get("file3", "-"))[-8:], 16)
            except ValueError:
                secs = 0
            rcm, mouts, errm = run_model(drv, ["n %s %d" % (" ".join(d.hex() for d in ds), secs)])
            om = fields(mouts[0]) if rcm == 0 and mouts else {}
            same = all(oi.get(k) == om.get(k) for k in ("handled1", "r1", "file1", "handled2", "r2", "handled3", "r3", "file3"))
        else:
            ctx.count("enospc:not_full(model not compared)")
        if why or not same:
            ctx.disagreements_checked += 1
            data = {"kind": "enospc", "tmpfs": size, "draws": [d.hex() for d in ds], "impl": outs[0]}
            if why:
                ctx.violation("%s [/tmp full at the first call]" % why, data)
            else:
                ctx.tie_broken("correspondence: the disk-full run differs from the model although the property predicate holds", str(data))


def race_runs(ctx, exe, thorough):
    """N harness processes released together on an empty /tmp (REAL /dev/urandom: every process draws its own
    id), many rounds: all calls of all processes in a round must return one and the same 32-hex-digit id.
    No model comparison (the draws are not chosen): the property predicate only."""
    nproc, rounds = (8, 1500) if thorough else (8, 150)
    rc, outs, err = run_ns(exe, None, ["race %d %d" % (nproc, rounds)])
    if rc != 0 or len(outs) != rounds:
        ctx.tie_broken("harness c20 crashed in the multi-process race run", "rc=%s %d/%d\n%s" % (rc, len(outs), rounds, err[-1500:]))
        return
    bad = 0
    for i, o in enumerate(outs):
        calls = [c for kid in o.split("=", 1)[1].split(",") for c in kid.split("+")]
        ctx.evaluations += 1
        ids = set()
        why = None
        if len(calls) != 3 * nproc:
            why = "a process did not complete its three calls (%d results for %d calls)" % (len(calls), 3 * nproc)
        for c in calls:
            h, _, rep = c.partition(";")
            w, bc = reply_ok(rep.replace("/", ";"), 77, ":1.9") if h == "true" else ("GetMachineId was reported as handled=%s" % h, None)
            if w:
                why = why or w
                continue
            ids.add(bc[0])
            if not bc[0].startswith("s:") or not is_machine_id(unhx(bc[0][2:])):
                why = why or "the machine id is not a 32-digit hexadecimal string: %r" % (unhx(bc[0][2:]).decode("latin-1") if bc[0].startswith("s:") else bc[0])
        if not why and len(ids) != 1:
            why = "concurrent first calls returned %d different machine ids although the stored id was never removed" % len(ids)
        if why:
            bad += 1
            ctx.disagreements_checked += 1
            ctx.violation("%s [%d processes started together on an empty /tmp]" % (why, nproc), {"kind": "race", "round": i, "impl": o[:3000]})
    ctx.count("race:rounds", rounds)
    ctx.count("race:processes_per_round", nproc)
    ctx.extra["race_rounds_distinct"] = rounds            # every round draws fresh random ids: distinct by construction
    ctx.extra_distinct += rounds


def judge_later_process(o, expected):
    """a later process finds the id an earlier process stored: it must come back unchanged, twice"""
    for k in ("handled1", "handled2"):
        if o.get(k) != "true":
            return "GetMachineId was reported as %s=%s" % (k, o.get(k))
    if o.get("pre") != expected:
        return None       # environment (the file did not survive): not a verdict; the caller reports a broken tie
    for k in ("r1", "r2"):
        why, bc = reply_ok(o[k], 77, ":1.9")
        if why:
            return why
        if bc[0] != "s:" + expected:
            return "a later process did not return the id stored by an earlier one"
    if o["file1"] != expected or o["file2"] != expected:
        return "the stored id was rewritten by a later process"
    if not is_machine_id(unhx(expected)):
        return "the stored id (written by create_and_store) is not a 32-digit hexadecimal string"
    return None


def clock_in_window(o):
    """advisory only (the clock is an oracle of the model, the property does not constrain it)"""
    try:
        secs = int(unhx(o["file1"])[-8:], 16)
        t0, t1 = int(o["t0"]), int(o["t1"])
        return (secs - (t0 - 5)) % 2 ** 32 <= (t1 - t0) + 10
    except (KeyError, ValueError):
        return False


def judge_uuid(o):
    for k in ("handled1", "handled2"):
        if o[k] != "true":
            return "GetMachineId was reported as %s=%s" % (k, o[k])
    why, bc = reply_ok(o["r1"], 77, ":1.9")
    if why:
        return "first call: " + why
    why2, bc2 = reply_ok(o["r2"], 77, ":1.9")
    if why2:
        return "second call: " + why2
    if not bc[0].startswith("s:") or not bc2[0].startswith("s:"):
        return "the GetMachineId reply does not carry one string"
    id1, id2 = unhx(bc[0][2:]), unhx(bc2[0][2:])
    if not is_machine_id(id1):
        return "the machine id is not a 32-digit hexadecimal string: %r (%d characters)" % (id1.decode("latin-1"), len(id1))
    if o["file1"] != hx(id1):
        return "the id returned is not the id stored"
    if id2 != id1 or o["file2"] != o["file1"]:
        return "the machine id changed between two calls although the stored id was not removed"
    return None


# ------------------------------------------------------------------

def run(ctx):
    thorough = ctx.tier == "thorough"
    ctx.rule = ("machine id: draws = all-zero, all-ones, fixed boundary draws, one draw for every feasible pair (k1,k2) of "
                "leading-zero hex digit counts of the two random words (0..16, 0..8), and seeded random draws; each draw is "
                "put into the /dev/urandom fixture, the stored id removed, GetMachineId called twice (the second time with "
                "another draw in the fixture); afterwards a LATER process (new namespace, other draw) on the same /tmp directory must "
                "return the id the earlier process stored. Peer dispatch: all combinations of 7 interfaces x 9 members (absent, exact, "
                "near misses incl. suffix/prefix ones) x 5 message types (call, signal, method return, error, invalid), with sender, serial, "
                "flags (0,1=NO_REPLY_EXPECTED,2,4,255), destination, body and a REPLY_SERIAL field varied. Fields the handler must not look at are inputs too: "
                "the OBJECT PATH (no PATH field at all, /, /x, /org/freedesktop/DBus, .../DBus/Local, .../DBus/Peer, other near misses of the bus's path, a deep "
                "and a long path), the NUM_FDS header field (absent, 0, 1) and the body shape (empty, one string, one u32, a string and a u32): every "
                "Ping/GetMachineId call on the Peer interface runs with the full product of the three, every other type of those messages and every "
                "near-miss call (Peer interface or Ping/GetMachineId member, not both) with every object path, all remaining cases with a random "
                "choice. The model's message record carries object path and num_fds as fields it never reads and gets them too; the body shape goes "
                "to the implementation only and the verdict must be the one the model gives without it. The CLOCK is chosen too (LD_PRELOAD "
                "clock_gettime shim compiled at check time, harness process only): draws at 0, 42, 2^31, 2^32-1, 2^32, 2^32+5 seconds must give "
                "exactly the model's id. DISK FULL: /tmp is a 4k/8k tmpfs filled to the last byte, first call (may fail, must not store or "
                "return a malformed id), space freed, two more calls (one proper id). RACE: 8 processes released together on an empty /tmp "
                "with the real /dev/urandom, 150 rounds (thorough 1500): all 24 calls of a round must return one id (predicate only, no model). The process ENVIRONMENT is an input dimension of the check only (the model has none: the code uses the fixed path "
                "/tmp/dbus_machine_uuid, so it must behave identically in all of them): the namespace runs are repeated with TMPDIR unset, "
                "=/tmp, =another existing writable directory, =a nonexistent directory, =a directory below /tmp, and HOME/XDG_RUNTIME_DIR "
                "set elsewhere, to nonexistent directories and unset; per environment three calls in one process (a new draw each time) and "
                "three in a later process must return one and the same 32-hex-digit id. Non-trivial: every draw case, every environment; a dispatch case whose "
                "interface is the Peer interface or whose member is Ping/GetMachineId. Distinct = distinct inputs.")
    ctx.trusted = ["Coq 8.16.1 kernel (coqc), no native_compute", "extraction with ExtrOcamlBasic only, ocamlfind ocamlopt 4.13.1",
                   "ocaml/c20/driver.ml and harness/src/bin/c20.rs (I/O wrappers; own little-endian decoder at the peer)",
                   "util-linux unshare + mount (private mount namespace with a fixture over /dev/urandom and a tmpfs over /tmp)",
                   "core::fmt `{:0wX}` is modelled as minimum-width upper-case hex (hex_min), std::str::from_utf8 as a predicate true on ASCII"]
    ctx.assumptions = ["when storing a fresh id fails (disk full, link error) get_machine_id returns the io error and the handler's unwrap panics: "
                       "the call is not answered - an environment failure outside the property; what IS checked and proved: no id file (never an "
                       "empty or partial one) is left, and later calls return a proper id",
                       "nobody but create_and_store_machine_uuid writes /tmp/dbus_machine_uuid: a foreign or corrupt stored file is returned as it is "
                       "(or panics the unwrap when it is not UTF-8 / holds NUL) - an environment assumption (hypothesis of C20_id_always_32hex), never a verdict",
                       "/dev/urandom delivers 12 bytes; std::fs::write succeeds or GetMachineId panics (unwrap) - not part of the property",
                       "nothing else removes or rewrites /tmp/dbus_machine_uuid between exists() and read()",
                       "sending the reply succeeds (C10 covers sending)"]
    ctx.try_proof()
    try:
        vlib.coq_make(["History/PeerOld.vo"])
        ctx.extra["historical_lemma"] = "History/PeerOld.v: C20_old_format_refuted builds ({:08X}{:04X}{:04X}: 0x123,1,0x66000000 -> 20 characters)"
    except vlib.BrokenTie as bt:
        ctx.extra["historical_lemma"] = "History/PeerOld.v does not build: " + bt.what
    exe = vlib.harness_build(["c20"])["c20"]
    vlib.coq_make(["Conn/Peer.vo"])
    drv = vlib.ocaml_build("c20")
    try:
        vlib.coq_make(["Conn/PeerExamples.vo"])               # non-vacuity examples next to the theorems
        ctx.extra["examples"] = "Conn/PeerExamples.v builds"
    except vlib.BrokenTie as bt:
        ctx.tie_broken("the non-vacuity examples Conn/PeerExamples.v no longer check", bt.detail)

    ns = have_namespace() and os.environ.get("VERIF_C20_NO_NS") != "1"
    ctx.extra["mount_namespace"] = ns
    if not ns:
        # say so loudly (not a verdict): most of the check needs the namespace
        print("NOTE property=C20 no private mount namespace (unshare -rm) available: chosen draws, chosen clock, environment sweep, "
              "disk-full and multi-process runs were NOT run; only real-draw length/alphabet/stability and the dispatch table were checked")
        ctx.rule = ("FALLBACK MODE (no private mount namespace): nothing is chosen. Real /dev/urandom draws via the real /tmp/dbus_machine_uuid "
                    "(saved and restored): the id must be 32 hex digits, stored, and returned again by a second call; Peer dispatch: all "
                    "interface x member x message type combinations except GetMachineId. Non-trivial: every real draw; a dispatch case naming "
                    "the Peer interface or Ping. The chosen-draw, chosen-clock, environment, disk-full and race runs described in the manifest did not run.")
        ctx.count("namespace_unavailable:stages_not_run", 6)
    r = ctx.sub_rng("c20")
    os.makedirs(vlib.SCRATCH, exist_ok=True)
    tmpd = tempfile.mkdtemp(prefix="c20_", dir=vlib.SCRATCH)
    try:
        if ns:
            run_in_namespace(ctx, exe, drv, r, thorough, tmpd)
        else:
            run_fallback(ctx, exe, drv, r, thorough)
    finally:
        shutil.rmtree(tmpd, ignore_errors=True)


def model_peer_line(case, o):
    """the environment the implementation ran in, for the model: stored id before, draw, clock"""
    pre = o.get("pre", "none")
    if pre == "unobserved":
        pre = "none"
    draw = o.get("draw", "-")
    if draw == "unobserved" or len(draw) != 24:
        draw = "00" * 12
    secs = 0
    post = o.get("post", "none")
    if pre == "none" and post not in ("none", "unobserved"):
        try:
            secs = int(unhx(post)[-8:], 16)
        except ValueError:
            secs = 0
    return "%s %s %s %d" % (peer_line(case, model=True), pre, draw, secs)


def compare_peer(ctx, drv, cases, outs):
    mlines = [model_peer_line(c, fields(o)) for c, o in zip(cases, outs)]
    rc, mouts, err = run_model(drv, mlines)
    if rc != 0 or len(mouts) != len(cases):
        ctx.tie_broken("model driver c20 crashed", err[-2000:])
        return
    for c, li, lm in zip(cases, outs, mouts):
        oi, om = fields(li), fields(lm)
        iface, member, typ, serial, sender, rs, flags, dest, body_in, obj, fds, bk = full_case(c)
        nt = iface == PEER or member in ("Ping", "GetMachineId")
        ctx.case(("p",) + c, nontrivial=nt,
                 sample={"interface": iface, "member": member, "type": typ, "serial": serial, "sender": sender, "reply_serial_field": rs, "flags": flags, "destination": dest, "body": body_in, "object_path": obj, "num_fds": fds, "body_kind": bk, "impl": li[:200]}
                 if nt and iface == PEER and member in ("Ping", "GetMachineId") and len(ctx.samples) < 3 else None)
        ctx.count("peer:handled=" + oi.get("handled", "?"))
        if iface == PEER and member in ("Ping", "GetMachineId") and typ == "c":
            ctx.count("peer:call_flags=%d" % flags)
            ctx.count("peer:call_object_path=%s" % (obj if obj is None or len(obj) < 40 else obj[:24] + "...(%d chars)" % len(obj)))
            ctx.count("peer:call_num_fds=%s" % fds)
            ctx.count("peer:call_body=%s" % {"-": "empty" if body_in is None else "one string", "u": "one u32", "2": "string+u32"}[bk])
        keys = ["handled", "filter", "written"] + (["pre", "post"] if oi.get("pre") != "unobserved" else [])
        if any(oi.get(k) != om.get(k) for k in keys):
            ctx.disagreements_checked += 1
            why = judge_peer(c, oi)
            data = {"kind": "p", "case": list(c), "line": peer_line(c), "impl": li, "model": lm}
            if why:
                ctx.violation("%s [object path %s, num_fds %s, body kind %s]" % (why, obj if obj is None or len(obj) < 60 else obj[:40] + "...", fds, bk), data)
            else:
                ctx.tie_broken("correspondence: handle_peer_message differs from the model on a point the property does not constrain", str(data))


def crosscheck_extraction(ctx, drv, draws):
    """thorough tier: the extracted model and its driver against vm_compute inside Coq (exact id strings)"""
    secs = 1790000000
    rc, outs, err = run_model(drv, ["u %s %s %d" % (d.hex(), "00" * 12, secs) for d in draws])
    if rc != 0 or len(outs) != len(draws):
        ctx.tie_broken("model driver c20 crashed (cross-check)", err[-2000:])
        return
    items = []
    for d, o in zip(draws, outs):
        idb = unhx(fields(o)["file1"])
        items.append("([%s], [%s])" % (";".join(str(x) for x in d), ";".join(str(x) for x in idb)))
    v = ("From RB Require Import Base.Prelude Conn.DispatchMsg Conn.Peer.\n"
         "Definition cases : list (list N * list N) := [\n%s].\n"
         "Definition agree (c : list N * list N) : bool :=\n"
         "  str_eqb (format_uuid (rand1_of (fst c)) (rand2_of (fst c)) (%d mod 2 ^ 32)) (snd c).\n"
         "Eval vm_compute in (forallb agree cases).\n") % (";\n".join(items), secs)
    res = vlib.coq_eval("c20cases", v)
    ctx.extra["extraction_crosscheck"] = "%d ids computed with vm_compute inside Coq and by the extracted model: %s" % (
        len(draws), "agree" if "= true" in res else "DISAGREE")
    if "= true" not in res:
        ctx.tie_broken("extracted model / driver disagree with vm_compute inside Coq", res[-1500:])


def run_in_namespace(ctx, exe, drv, r, thorough, tmpd):
    draws = gen_draws(r, thorough)
    if thorough:
        crosscheck_extraction(ctx, drv, draws[:300])
    cases = gen_peer_lines(r, thorough, True)
    nshard = min(8, vlib.NPROC)
    import concurrent.futures as cf
    shards = []
    for i in range(nshard):
        fx = os.path.join(tmpd, "urandom_%d" % i)
        first = bytes(r.randrange(256) for _ in range(12))
        open(fx, "wb").write(first)
        pc = cases[i::nshard]
        dc = draws[i::nshard]
        others = [bytes(r.randrange(256) for _ in range(12)) for _ in dc]
        lines = [peer_line(c) for c in pc] + ["u %s %s" % (d.hex(), o.hex()) for d, o in zip(dc, others)]
        td = os.path.join(tmpd, "tmp_%d" % i)          # mounted over /tmp; survives the harness process
        os.makedirs(td)
        shards.append((fx, pc, dc, others, lines, td))
    with cf.ThreadPoolExecutor(nshard) as ex:
        results = list(ex.map(lambda s: run_ns(exe, s[0], s[4], tmpdir=s[5]), shards))
    later = []
    for (fx, pc, dc, others, lines, td), (rc, outs, err) in zip(shards, results):
        if rc != 0 or len(outs) != len(lines):
            ctx.tie_broken("harness c20 crashed or produced short output inside the namespace", "rc=%s %d/%d\n%s" % (rc, len(outs), len(lines), err[-2000:]))
            continue
        if any(o in ("nofixture", "refused") for o in outs):
            ctx.tie_broken("the /dev/urandom fixture is not in effect inside the namespace", "\n".join(outs[:5]))
            continue
        compare_peer(ctx, drv, pc, outs[:len(pc)])
        uouts = outs[len(pc):]
        if uouts and "file2" in fields(uouts[-1]):
            later.append((fx, td, fields(uouts[-1])["file2"]))
        mlines = []
        for d, o, li in zip(dc, others, uouts):
            f = fields(li)
            try:
                secs = int(unhx(f["file1"])[-8:], 16)
            except (ValueError, KeyError):
                secs = 0
            mlines.append("u %s %s %d" % (d.hex(), o.hex(), secs))
        rcm, mouts, errm = run_model(drv, mlines)
        if rcm != 0 or len(mouts) != len(dc):
            ctx.tie_broken("model driver c20 crashed", errm[-2000:])
            continue
        for d, li, lm in zip(dc, uouts, mouts):
            oi, om = fields(li), fields(lm)
            r1, r2 = words(d)
            ctx.case(("u", d), nontrivial=True,
                     sample={"draw": d.hex(), "id": unhx(oi.get("file1", "-")).decode("latin-1") if oi.get("file1") not in (None, "none") else None}
                     if len(ctx.samples) < 8 and nibble_zeros(r1, 16) > 0 else None)
            ctx.count("uuid:rand1_leading_zero_digits=%d" % nibble_zeros(r1, 16))
            ctx.count("uuid:rand2_leading_zero_digits=%d" % nibble_zeros(r2, 8))
            ctx.count("uuid:clock_part_is_creation_time(advisory)=%s" % clock_in_window(oi))
            same = all(oi.get(k) == om.get(k) for k in ("handled1", "r1", "file1", "handled2", "r2", "file2"))
            why = judge_uuid(oi) if all(k in oi for k in ("handled1", "handled2", "r1", "r2", "file1", "file2", "t0", "t1")) else "harness output incomplete"
            if not same or why:
                ctx.disagreements_checked += 1
                data = {"kind": "u", "draw": d.hex(), "impl": li, "model": lm}
                if why:
                    ctx.violation(why, data)
                else:
                    ctx.tie_broken("correspondence: the id differs from format_uuid(rand1, rand2, secs) of the model although it is a stable 32-hex-digit id", str(data))
    # a LATER process (new namespace, another draw in the fixture) on the directory where an earlier
    # process stored its id: the stored id must come back unchanged
    for fx, td, expected in later:
        open(fx, "wb").write(bytes(r.randrange(256) for _ in range(12)))
        rc, outs, err = run_ns(exe, fx, ["g"], tmpdir=td)
        if rc != 0 or len(outs) != 1:
            ctx.tie_broken("harness c20 crashed in the later-process run", err[-2000:])
            continue
        oi = fields(outs[0])
        ctx.case(("g", expected), nontrivial=True, sample={"later_process_finds": unhx(expected).decode("latin-1"), "impl": outs[0][:160]} if len(ctx.samples) < 8 else None)
        ctx.count("later_process:stored_id_found")
        if oi.get("pre") != expected:
            ctx.tie_broken("environment: the id file stored by the earlier process was not found by the later one", outs[0])
            continue
        rcm, mouts, errm = run_model(drv, ["g %s %s 0" % (expected, oi.get("draw", "00" * 12) if len(oi.get("draw", "")) == 24 else "00" * 12)])
        om = fields(mouts[0]) if rcm == 0 and mouts else {}
        same = all(oi.get(k) == om.get(k) for k in ("pre", "handled1", "r1", "file1", "handled2", "r2", "file2"))
        why = judge_later_process(oi, expected)
        if why or not same:
            ctx.disagreements_checked += 1
            data = {"kind": "g", "stored": expected, "impl": outs[0], "model": mouts[0] if mouts else errm}
            if why:
                ctx.violation(why, data)
            else:
                ctx.tie_broken("correspondence: the later process differs from the model although the stored id came back unchanged", str(data))
    env_sweep(ctx, exe, drv, r, tmpd)
    clock_runs(ctx, exe, drv, r, tmpd)
    enospc_runs(ctx, exe, drv, r, tmpd, thorough)
    race_runs(ctx, exe, thorough)
    ctx.exhaustive = False


def run_fallback(ctx, exe, drv, r, thorough):
    ctx.extra["fallback"] = ("no private mount namespace available: real /dev/urandom draws, only length, alphabet, storage and "
                             "stability of the id are checked (any existing /tmp/dbus_machine_uuid is saved and restored by the harness)")
    cases = gen_peer_lines(r, thorough, False)
    rc, outs, err = run_plain(exe, [peer_line(c) for c in cases])
    if rc != 0 or len(outs) != len(cases):
        ctx.tie_broken("harness c20 crashed or produced short output", err[-2000:])
    else:
        compare_peer(ctx, drv, cases, outs)
    n = 2000 if thorough else 300
    rc, outs, err = run_plain(exe, ["f"] * n)
    if rc != 0 or len(outs) != n:
        ctx.tie_broken("harness c20 crashed or produced short output (fallback draws)", err[-2000:])
        return
    for i, li in enumerate(outs):
        oi = fields(li)
        ctx.case(("f", oi.get("file1")), nontrivial=True, sample={"id": oi.get("file1")} if i < 3 else None)
        why = judge_uuid(oi)
        if why:
            ctx.disagreements_checked += 1
            ctx.violation(why, {"kind": "f", "impl": li})


def replay(ctx, body):
    data = body["data"]
    exe = vlib.harness_build(["c20"])["c20"]
    vlib.coq_make(["Conn/Peer.vo"])
    drv = vlib.ocaml_build("c20")
    os.makedirs(vlib.SCRATCH, exist_ok=True)
    tmpd = tempfile.mkdtemp(prefix="c20_", dir=vlib.SCRATCH)
    try:
        fx = os.path.join(tmpd, "urandom")
        open(fx, "wb").write(bytes(12))
        kind = data["kind"]
        if kind == "u":
            line = "u %s %s" % (data["draw"], "ff" * 12)
            rc, outs, err = run_ns(exe, fx, [line])
            print("input:", line)
            print("impl :", outs[0] if outs else err)
            why = judge_uuid(fields(outs[0])) if outs else "harness failed"
        elif kind == "p":
            c = tuple(data["case"])
            line = peer_line(c)
            if have_namespace():
                rc, outs, err = run_ns(exe, fx, [line])
            else:
                rc, outs, err = run_plain(exe, [line])
            print("input:", line)
            print("impl :", outs[0] if outs else err)
            why = judge_peer(c, fields(outs[0])) if outs else "harness failed"
        elif kind == "env":
            env_sweep(ctx, exe, drv, ctx.sub_rng("c20"), tmpd)
            print("environment sweep re-run; recorded environment:", data.get("environment"))
            why = "; ".join(json.load(open(os.path.join(vlib.VERIF, p)))["what"] for p, _ in ctx.violations) or None
        elif kind == "g":
            td = os.path.join(tmpd, "tmp")
            os.makedirs(td)
            rc, outs, err = run_ns(exe, fx, ["u %s %s" % ("01" * 12, "02" * 12)], tmpdir=td)
            expected = fields(outs[0]).get("file2") if outs else None
            open(fx, "wb").write(b"\x03" * 12)
            rc, outs, err = run_ns(exe, fx, ["g"], tmpdir=td)
            print("earlier process stored:", expected)
            print("later process :", outs[0] if outs else err)
            why = judge_later_process(fields(outs[0]), expected) if outs and expected else "harness failed"
        else:
            rc, outs, err = run_plain(exe, ["f"] * 200)
            why = next((w for w in (judge_uuid(fields(o)) for o in outs) if w), None)
    finally:
        shutil.rmtree(tmpd, ignore_errors=True)
    if why:
        print("REPRODUCED:", why)
        return 1
    print("not reproduced (the implementation satisfies the property on this input)")
    return 0
