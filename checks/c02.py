"""C02 - marshalled bytes are exactly the D-Bus encoding; unencodable values are refused.

Proof: coq/Properties/C02.v. Tie: for every catalogue type (the generic impls instantiated at concrete Rust types,
including the [E; N] / [E] / &[E] / Cow / &[u8] / &str flavours, raw f64 with the memcpy path and the 5-tuple), both
byte orders, prefix lengths 0..15 created by preceding u8 parameters, boundary-biased values plus values with one
unencodable leaf (NUL in a string, invalid object path / signature, taken descriptor): typed API (push_param), dynamic
API (push_old_param of the equivalent Param tree built from owned, borrowing or alternating variants) and a
params::Variant pushed through the typed API, against the extracted model (marshal_t / marshal_param_top) and,
independently of the model, against the extracted SPECIFICATION (spec_enc, encodable): bytes produced == spec bytes,
refusal <-> not encodable.  Further streams: "big" (length fields >= 64 KiB, long strings, 64+ containers in one
array, nesting at the limits) and "inconsistent" (Param trees whose declared element / key / value / variant types
differ from their contents, structs without fields, nesting beyond 64: refused, nothing written, no panic).
"""
import os

import vlib
import wiregen as wg


def fields(line):
    parts = line.split(" ")
    d = {"res": parts[0]}
    rest = " ".join(parts[1:])
    if " val=" in " " + rest:
        head, val = (" " + rest).split(" val=", 1)
        d["val"] = val
        rest = head.strip()
    for p in rest.split(" "):
        if "=" in p:
            k, v = p.split("=", 1)
            d[k] = v
    return d


PARAM_OPS = ("MP", "MPR", "MPX")
VARIANT_OPS = ("MV", "MVR", "MVX")
CONTAINER_OPS = ("MPC", "MPCR", "MPCX")      # wire::marshal::container::marshal_container_param on a bare context
RAW_OPS = CONTAINER_OPS + ("MA",)             # MA: the free function message_builder::marshal_as_variant. No body: no signature, no rollback


def make_cases(ctx, n_per_type, thorough):
    """dict(stream, op, ty, t, bo, prefix, toks, bad, cls, sig)"""
    r = ctx.sub_rng("c02")
    cases = []

    def add(stream, op, ty, t, bo, prefix, toks, bad=False, cls=None):
        sig = "" if op in RAW_OPS else "y" * prefix + ("v" if op in VARIANT_OPS else (wg.erased(t) if t else ""))
        cases.append({"stream": stream, "op": op, "ty": ty, "t": t, "bo": bo, "prefix": prefix, "toks": toks, "bad": bad, "cls": cls, "sig": sig})

    for line in wg.corpus_lines("C02"):
        f = line.split(" ")
        if f[0] in ("MT", "MA"):
            add("catalogue", f[0], f[1], wg.parse_ext(f[1]), f[2], int(f[3]), f[4:], cls="corpus")
        else:
            # the dynamic API: judged like the inconsistent stream (consistent trees fall through to the specification)
            add("inconsistent", f[0], None, None, f[1], int(f[2]), f[3:], cls="corpus")
    for ty in wg.catalogue() + wg.catalogue_marshal_only():
        t = wg.parse_ext(ty)
        for i in range(n_per_type):
            bo = "le" if (i + r.randrange(2)) % 2 == 0 else "be"
            prefix = r.randrange(16) if i else r.choice([0, 4])
            bad = (i % 4 == 3) and wg.count_leaves(t, "sogh") > 0
            toks, isbad = wg.gen_value(r, t, bad=bad)
            add("catalogue", "MT", ty, t, bo, prefix, toks, isbad)
            if i % 8 == 6:
                add("catalogue", "MA", ty, t, bo, prefix, toks, isbad)
            if wg.forbidden_variant_content(t):
                continue                  # the dynamic API cannot name a type whose signature is invalid
            if i % 2 == 0:
                add("catalogue", PARAM_OPS[(i // 2 + r.randrange(3)) % 3], ty, t, bo, prefix, toks, isbad)
            if i % 4 == 1 and t[0] != "b":
                add("catalogue", CONTAINER_OPS[r.randrange(3)], ty, t, bo, prefix, toks, isbad)
            if i % 8 == 5 or (t[0] == "v" and i % 4 == 1):
                # the same value inside a params::Variant pushed through the typed API
                vt = toks if t[0] == "v" else ["v", wg.erased(t)] + toks
                add("catalogue", VARIANT_OPS[r.randrange(3)], ty, t, bo, prefix, vt, isbad)
    # ---- every unencodable signature text of wiregen.BAD_SIGS (dict entries with 0 / 1 / 3 / 4 types, entries outside an array, ...) in a
    # `g` leaf: bare through every API, and inside a random catalogue type that has a signature leaf (the catalogue stream draws ONE
    # bad text per bad value at random: a class of texts can go unvisited in a run)
    rg = ctx.sub_rng("c02-sigleaf")
    gtypes = [ty for ty in wg.catalogue() + wg.catalogue_marshal_only() if wg.count_leaves(wg.parse_ext(ty), "g")]
    for bs in wg.BAD_SIGS:
        leaf = ["g", wg.hx(bs)]
        for op, ty in (("MT", "g"), ("MT", "G"), (rg.choice(PARAM_OPS), "g"), (rg.choice(VARIANT_OPS), "g"), (rg.choice(CONTAINER_OPS), "(g)")):
            toks = ["r", "1"] + leaf if ty == "(g)" else (["v", "g"] + leaf if op in VARIANT_OPS else leaf)
            add("catalogue", op, ty, wg.parse_ext(ty), rg.choice(["le", "be"]), rg.randrange(16), toks, True, cls="bad-signature-leaf")
        for _ in range(3 if thorough else 1):
            ty = rg.choice(gtypes)
            t = wg.parse_ext(ty)
            toks = wg.ValGen(rg, sizes=(1, 2)).gen(t)
            toks = wg.replace_leaf(toks, "g", rg.randrange(wg.count_tag(toks, "g")), wg.hx(bs))
            add("catalogue", "MT", ty, t, rg.choice(["le", "be"]), rg.randrange(16), toks, True, cls="bad-signature-leaf")
            if not wg.forbidden_variant_content(t):
                add("catalogue", rg.choice(PARAM_OPS), ty, t, rg.choice(["le", "be"]), rg.randrange(16), toks, True, cls="bad-signature-leaf")
    rb = ctx.sub_rng("c02-big")
    monly = set(wg.catalogue_marshal_only())
    for cls, ty, toks in wg.big_cases(rb, thorough):
        t = wg.parse_ext(ty)
        for bo in ("le", "be"):
            add("big", "MT", ty, t, bo, rb.randrange(16), toks, cls=cls)
        add("big", rb.choice(PARAM_OPS), ty, t, rb.choice(["le", "be"]), rb.randrange(16), toks, cls=cls)
    ri = ctx.sub_rng("c02-inconsistent")
    for cls, toks in wg.inconsistent_trees(ri, 400 if thorough else 60):
        bo = ri.choice(["le", "be"])
        prefix = ri.randrange(16)
        for op in PARAM_OPS:
            add("inconsistent", op, None, None, bo, prefix, toks, cls=cls)
        if toks[0] in "arev":
            add("inconsistent", ri.choice(CONTAINER_OPS), None, None, bo, prefix, toks, cls=cls)
        if toks[0] == "v":
            add("inconsistent", ri.choice(VARIANT_OPS), None, None, bo, prefix, toks, cls=cls)
        else:
            tree, _ = wg.parse_tokens(toks, 0)
            s = wg.tree_sig(tree)
            if "()" not in s and len(s) < 250:
                add("inconsistent", ri.choice(VARIANT_OPS), None, None, bo, prefix, ["v", s] + toks, cls=cls)
    return cases


def line_of(c, val=None, model=False):
    v = val if val is not None else " ".join(c["toks"])
    if c["op"] in ("MT", "MA"):
        return "%s %s %s %d %s" % (c["op"], c["ty"], c["bo"], c["prefix"], v)
    return "%s %s %d %s" % (c["op"], c["bo"], c["prefix"], v)


def run(ctx):
    thorough = ctx.tier == "thorough"
    ctx.trusted = ["Coq 8.16.1 kernel", "extraction (ExtrOcamlBasic only) + ocaml/wire/driver.ml", "harness/src/bin/wire.rs, wire_param.rs, wirelib.rs, catalogue.rs",
                   "Wire/SpecEnc.v as my reading of the D-Bus wire format",
                   "wiregen.tree_consistent: the side condition of the dynamic API (declared types = content types, no empty struct, "
                   "at most 64 nested containers) written from the property text"]
    ctx.assumptions = ["usize is 64 bit, native byte order is little endian", "HashMap iteration order is taken from the implementation run and fed to the model",
                       "strings longer than 2^32-1 bytes are not exercised",
                       "big stream: where the extracted marshal model is too slow (element-wise paths over thousands of elements) the "
                       "implementation's bytes are compared with the extracted specification only; counted as big:model-skipped"]
    if not os.environ.get("VERIF_SKIP_PROOF"):
        ctx.try_proof()
    exe = vlib.harness_build(["wire"])["wire"]
    vlib.coq_make(["Wire/Ops.vo"])
    drv = vlib.ocaml_build("wire")

    n_per_type = 100 if thorough else 16
    cases = make_cases(ctx, n_per_type, thorough)
    lines = [line_of(c) for c in cases]
    small = [i for i, c in enumerate(cases) if c["stream"] != "big"]
    big = [i for i, c in enumerate(cases) if c["stream"] == "big"]
    impl = [None] * len(cases)
    ok, out, err = vlib.par_run_lines(exe, [], [lines[i] for i in small], robust=True)
    if not ok:
        ctx.tie_broken("wire harness crashed", err)
        return
    for i, o in zip(small, out):
        impl[i] = o
    ok, out, err = wg.run_each(exe, [lines[i] for i in big], robust=True, chunk=4)
    if not ok:
        ctx.tie_broken("wire harness crashed (big stream)", err)
        return
    for i, o in zip(big, out):
        impl[i] = o
    # second phase: the model gets the value in the order the implementation's maps iterated
    mlines = []
    for c, o in zip(cases, impl):
        f = fields(o)
        mlines.append(line_of(c, f.get("val", " ".join(c["toks"]))))
    model = [None] * len(cases)
    ok, out, err = vlib.par_run_lines(drv, [], [mlines[i] for i in small])
    if not ok:
        ctx.tie_broken("extracted wire model crashed", err)
        return
    for i, o in zip(small, out):
        model[i] = o
    cheap = [i for i in big if wg.model_cheap(cases[i]["op"][:2], cases[i]["bo"], cases[i]["toks"])]
    ok, out, err = wg.run_each(drv, [mlines[i] for i in cheap], chunk=2)
    if not ok:
        ctx.tie_broken("extracted wire model crashed (big stream)", err)
        return
    for i, o in zip(cheap, out):
        model[i] = o
    # the extracted driver against Coq's own evaluation of the same definitions, on a sample of this run's lines
    import wirecross
    wirecross.cross(ctx, [(mlines[i], model[i]) for i in small], ctx.sub_rng("c02-coqcross"), 1200 if thorough else 120, name="c02_cross")
    # where the marshal model is too slow, the specification alone (SE: spec_enc and encodable at the position after the prefix)
    spec_only = [i for i in big if model[i] is None]
    ok, out, err = wg.run_each(drv, ["SE %s %d %s" % (cases[i]["bo"], cases[i]["prefix"], mlines[i].split(" ", 4 if cases[i]["op"] == "MT" else 3)[-1])
                                     if wg.model_cheap("SE", cases[i]["bo"], cases[i]["toks"]) else "SE le 0 y 0" for i in spec_only], chunk=2)
    if not ok:
        ctx.tie_broken("extracted specification crashed (big stream)", err)
        return
    spec_of = dict(zip(spec_only, out))
    for i in spec_only:
        if not wg.model_cheap("SE", cases[i]["bo"], cases[i]["toks"]):
            # megabytes: judged by the plain encoder wiregen.Layout (compared with the specification on every other value by C03)
            spec_of[i] = "spec=%s encodable=true" % wg.layout(cases[i]["bo"] == "be", cases[i]["prefix"], fields(impl[i]).get("val", "").split(" "))[0].hex()
            ctx.count("big:judged-by-python-layout")

    classes = {}
    for i, (c, line, mline, li) in enumerate(zip(cases, lines, mlines, impl)):
        op, ty, bo, prefix, toks, bad, t = c["op"], c["ty"], c["bo"], c["prefix"], c["toks"], c["bad"], c["t"]
        lm = model[i]
        pre = bytes((k * 37 + 1) % 256 for k in range(prefix))
        fi = fields(li)
        if lm is not None:
            fm = fields(lm)
        else:
            fs = fields("x " + spec_of[i])
            fm = {"res": None, "encodable": fs["encodable"], "spec": (pre.hex() + (fs["spec"] if fs["spec"] != "-" else "")) or "-"}
        nontrivial = prefix > 0 or t is None or t[0] != "b" or t[1] in "sogh"
        canon = line if c["stream"] != "big" else (c["cls"], op, ty, bo, prefix, len(toks), hash(line))
        ctx.case(canon, nontrivial=nontrivial,
                 sample={"case": line[:200], "impl": li[:160], "model": (lm or "")[:200]} if (nontrivial and ctx.evaluations % 197 == 0) else None)
        ctx.count("api:" + op)
        ctx.count("bo:" + bo)
        ctx.count("prefix%8=" + str(prefix % 8))
        if t:
            ctx.count("kind:" + t[0])
        ctx.count("impl:" + fi["res"].lower())
        if c["cls"] == "corpus":
            ctx.count("corpus")
        elif c["stream"] == "catalogue":
            ctx.count("with_bad_leaf" if bad else "all_leaves_valid")
            if c["cls"]:
                ctx.count("catalogue:" + c["cls"])
            if op == "MT":
                for fl in wg.flavours(ty):
                    ctx.count("rust-flavour:" + fl)
        else:
            ctx.count(c["stream"] + ":" + c["cls"])
            if lm is None:
                ctx.count("big:model-skipped")
        short = (lambda s: s if len(s) < 4000 else s[:4000] + " ...(%d characters; regenerate with the seed)" % len(s))
        data = {"line": short(line), "model_line": short(mline), "impl": li[:3000], "model_and_spec": (lm or spec_of.get(i, ""))[:3000],
                "stream": c["stream"], "class": c["cls"]}
        if fi["res"] in ("CRASH", "PANIC"):
            ctx.disagreements_checked += 1
            ctx.violation("marshalling crashed the process or panicked (%s)" % li[:60], data)
            continue
        if fi["res"] not in ("ok", "err") or fm["res"] not in ("ok", "err", None):
            ctx.tie_broken("unexpected output", "%s\nimpl: %s\nmodel: %s" % (line[:2000], li[:500], (lm or "")[:500]))
            continue
        expect_sig = c["sig"].encode().hex()
        # ---- the property, evaluated on the implementation's own output against the specification
        why = None
        inconsistent = False
        if c["stream"] == "inconsistent":
            tree, _ = wg.parse_tokens(toks, 0)
            inconsistent = not wg.tree_consistent(tree)
            classes.setdefault(c["cls"], [0, 0])[0 if inconsistent else 1] += 1
        raw = op in RAW_OPS
        if inconsistent:
            # the side condition of the dynamic API fails: the tree must be refused and leave no trace (the specification's
            # encoder is defined on well-typed values only, so it is not consulted)
            if fi["res"] == "ok":
                why = "an inconsistent Param tree (%s) was marshalled instead of refused" % c["cls"]
            elif not raw and fi.get("buf", "-") != (pre.hex() or "-"):
                why = "a refused Param tree left bytes in the body"
        elif fi["res"] == "ok":
            if c["stream"] == "inconsistent":
                expect_sig = ("y" * prefix + ("v" if op in VARIANT_OPS else wg.tree_sig(wg.parse_tokens(toks, 0)[0]))).encode().hex()
            if fm["encodable"] != "true":
                why = "a value without a valid encoding was marshalled instead of refused"
            elif fi["buf"] != fm["spec"]:
                why = "marshalled bytes differ from the D-Bus encoding"
            elif not raw and fi["sig"] != expect_sig:
                why = "signature differs from the type's D-Bus signature"
        else:
            if fm["encodable"] == "true":
                why = "an encodable value was refused"
            elif not raw and fi.get("buf", "-") != (pre.hex() or "-"):
                why = "a refused value left bytes in the body"
        if not raw and fi["res"] == "err" and why is None and fi.get("sig", "-") != (("y" * prefix).encode().hex() or "-"):
            why = "a refused value left signature characters in the body"
        agree = lm is None or ((fi["res"] == fm["res"]) and (fi["res"] != "ok" or (fi["buf"] == fm["buf"] and fi["nfds"] == fm["nfds"])))
        if why:
            ctx.disagreements_checked += 1
            ctx.violation(why, data)
        elif not agree:
            ctx.disagreements_checked += 1
            ctx.tie_broken("correspondence: marshal model and implementation differ although the specification is met",
                           "%s\nimpl: %s\nmodel: %s" % (line[:2000], li[:1000], lm[:1000]))
    ngiant = giant(ctx, exe)
    ctx.extra["inconsistent_stream"] = {k: {"inconsistent": v[0], "consistent": v[1]} for k, v in sorted(classes.items())}
    ncat, nmo = len(wg.catalogue()), len(wg.catalogue_marshal_only())
    ctx.rule = ("case = (API: typed push_param MT | dynamic push_old_param of an owned / borrowing / alternating Param tree MP, MPR, MPX | "
                "params::Variant through the typed API MV, MVR, MVX | marshal_container_param on a bare context MPC, MPCR, MPCX | the free function "
                "marshal_as_variant MA; type; byte order; prefix length 0..15 made of preceding u8 parameters; value). "
                "Stream 1: %d catalogue types + %d marshal-only 5-tuple types x %d values (each typed, every second also dynamic, some as a typed "
                "params::Variant); values are boundary-biased (empty containers, min/max integers, NaNs, multi-byte UTF-8) and one in four has one "
                "unencodable leaf; plus every unencodable signature text of wiregen.BAD_SIGS (%d, among them dict entries with 0 / 1 / 3 / 4 types, "
                "a non-basic key, entries outside an array) in a `g` leaf: bare through every API and inside a random type with a signature leaf. Stream 2 (big, %d cases): length fields >= 64 KiB, strings of 255..70000 bytes, 64..100 containers in one "
                "array/dict, nesting at the limits; and %d arrays made inside the harness (ay, at, as through &[u8] / &[u64] / &[&str] and a Param array of "
                "strings, both byte orders) with exactly 2^26 bytes of content (accepted, length field 2^26), the smallest content above (refused) and "
                "16..50 MiB, judged by length, length field and CRC-32 of a plain specification encoder. Stream 3 (inconsistent, %d cases): Param trees with a wrong declared element / key / value / "
                "variant type, structs without fields, nesting beyond 64 (and exactly 64), bare and nested inside consistent trees, through every "
                "flavour. non-trivial = the value contains a container or a text/descriptor leaf, or prefix > 0; distinct = distinct case lines"
                % (ncat, nmo, n_per_type, len(wg.BAD_SIGS), len(big), ngiant, sum(1 for c in cases if c["stream"] == "inconsistent")))


def giant(ctx, exe):
    """Arrays at the protocol maximum: content of exactly 2^26 bytes must be marshalled (length field 2^26), one element more must be
    refused and leave nothing; 16..50 MiB in between (all four bytes of the length field in use). The value is made inside the harness
    from a descriptor (XM, harness/src/bin/wire.rs giant()); the verdict is the specification's, computed by the plain encoder
    wiregen.giant_spec and compared by length, length field and CRC-32. No extracted function runs on 64 MiB (model-skipped); the
    limit itself is covered by the theorems over all sizes."""
    r = ctx.sub_rng("c02-giant")
    cases = wg.giant_lines(r, "XM")
    ok, out, err = wg.run_each(exe, [c[4] for c in cases], robust=True, chunk=2)
    if not ok:
        ctx.tie_broken("wire harness crashed (giant stream)", err)
        return 0
    for (cls, shape, be, api, line), o in zip(cases, out):
        content, n, crc = wg.giant_spec(shape, be)
        f = fields(o)
        ctx.case(("giant", line), nontrivial=True, sample={"case": line, "impl": o[:160], "specification": "content %d bytes, encoding %d bytes, crc32 %s" % (content, n, crc)}
                 if shape[0] == "as" and be and api == "param" else None)
        ctx.count("giant:%s:%s" % (cls, "typed/memcpy" if api == "typed" and (shape[0] == "ay" or (shape[0] == "at" and not be)) else api + "/element-wise"))
        ctx.count("giant:model-skipped")
        ctx.count("bo:" + ("be" if be else "le"))
        why = None
        if f["res"] not in ("ok", "err"):
            why = "marshalling crashed the process or panicked (%s)" % o[:60]
        elif content <= wg.MAX_ARRAY:
            if f["res"] != "ok":
                why = "an encodable value was refused"
            elif (int(f["buflen"]), int(f["lenfield"]), f["crc"]) != (n, content, crc):
                why = "marshalled bytes differ from the D-Bus encoding"
            elif f["sig"] != shape[0].encode().hex():
                why = "signature differs from the type's D-Bus signature"
        elif f["res"] == "ok":
            why = "a value without a valid encoding was marshalled instead of refused"
        elif f["buflen"] != "0" or f["sig"] != "-":
            why = "a refused value left bytes or signature characters in the body"
        if why:
            ctx.disagreements_checked += 1
            ctx.violation(why, {"line": line, "model_line": line, "impl": o[:300], "stream": "giant", "class": cls,
                                "model_and_spec": "content %d bytes (maximum %d), encoding %d bytes, length field %d, crc32 %s" % (content, wg.MAX_ARRAY, n, content, crc)})
    return len(cases)


def replay(ctx, body):
    d = body["data"]
    exe = vlib.harness_build(["wire"])["wire"]
    if d.get("stream") == "giant":
        _, out, _ = vlib.run_lines(exe, [], [d["line"]])
        print("case :", d["line"])
        print("spec :", d["model_and_spec"])
        print("now  :", out[0][:300])
        print("then :", d["impl"])
        print("REPRODUCED" if out[0][:300] == d["impl"] else "not reproduced")
        return 1 if out[0][:300] == d["impl"] else 0
    drv = vlib.ocaml_build("wire")
    line, mline = d["line"], d["model_line"]
    if "...(" in line:
        head = line.split(" ...(")[0]
        c2 = vlib.Ctx("C02", body.get("tier", "quick"), int(body["seed"]))
        cands = [c for c in make_cases(c2, 100 if body.get("tier") == "thorough" else 16, body.get("tier") == "thorough")
                 if c["stream"] == "big" and line_of(c).startswith(head)]
        if not cands:
            print("could not regenerate the case from the seed")
            return 2
        line = line_of(cands[0])
        _, out, _ = vlib.run_lines(exe, [], [line])
        mline = line_of(cands[0], fields(out[0]).get("val"))
    _, out, _ = vlib.run_lines(exe, [], [line])
    print("case :", line[:400])
    print("impl :", out[0][:400])
    fi = fields(out[0])
    if d.get("stream") == "inconsistent" or fi["res"] in ("PANIC", "CRASH"):
        toks = line.split(" ")[3:]
        tree, _ = wg.parse_tokens(toks, 0)
        bad = fi["res"] in ("PANIC", "CRASH") or (not wg.tree_consistent(tree) and fi["res"] == "ok")
        print("REPRODUCED" if bad else "not reproduced")
        return 1 if bad else 0
    parts = mline.split(" ")
    skip = 2 if parts[0] == "MT" else 1
    se = "SE %s %s %s" % (parts[skip], parts[skip + 1], " ".join(parts[skip + 2:]))
    _, mout, _ = vlib.run_lines(drv, [], [se])
    print("spec :", mout[0][:400])
    fm = fields("x " + mout[0])
    prefix = int(parts[skip + 1])
    pre = bytes((k * 37 + 1) % 256 for k in range(prefix)).hex()
    spec = (pre + (fm["spec"] if fm["spec"] != "-" else "")) or "-"
    bad = (fi["res"] == "ok" and (fm["encodable"] != "true" or fi["buf"] != spec)) or (fi["res"] == "err" and fm["encodable"] == "true")
    print("REPRODUCED" if bad else "not reproduced")
    return 1 if bad else 0
