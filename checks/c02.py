"""C02 - marshalled bytes are exactly the D-Bus encoding; unencodable values are refused.

Proof: coq/Properties/C02.v. Tie: for every catalogue type (the generic impls instantiated at concrete
Rust types), both byte orders, prefix lengths 0..15 created by preceding u8 parameters, boundary-biased
values plus values with one unencodable leaf (NUL in a string, invalid object path / signature, taken
descriptor): typed API (push_param) and dynamic API (push_old_param of the equivalent Param tree) against the
extracted model (marshal_t / marshal_p) and, independently of the model, against the extracted
SPECIFICATION (spec_enc, encodable): bytes produced == spec bytes, refusal <-> not encodable.
"""
import os

import vlib
import wiregen as wg


def fields(line):
    parts = line.split(" ")
    d = {"res": parts[0]}
    rest = " ".join(parts[1:])
    if " val=" in " " + rest:
        head, val = (" " + rest).split(" val=", 1)
        d["val"] = val
        rest = head.strip()
    for p in rest.split(" "):
        if "=" in p:
            k, v = p.split("=", 1)
            d[k] = v
    return d


def make_cases(ctx, n_per_type, thorough):
    r = ctx.sub_rng("c02")
    cat = wg.catalogue()
    cases = []            # (api, tyname, bo, prefix, toks, bad)
    for ty in cat:
        t = wg.parse_ext(ty)
        for i in range(n_per_type):
            bo = "le" if (i + r.randrange(2)) % 2 == 0 else "be"
            prefix = r.randrange(16) if i else r.choice([0, 4])
            bad = (i % 4 == 3) and wg.count_leaves(t, "sogh") > 0
            toks, isbad = wg.gen_value(r, t, bad=bad)
            cases.append(("MT", ty, bo, prefix, toks, isbad))
            if i % 2 == 0:
                cases.append(("MP", ty, bo, prefix, toks, isbad))
    return cases


def run(ctx):
    thorough = ctx.tier == "thorough"
    ctx.rule = ("case = (API typed|Param, catalogue type, byte order, prefix length 0..15 made of preceding u8 parameters, value); "
                "values are boundary-biased (empty containers, min/max integers, NaNs, multi-byte UTF-8) and one in four has one "
                "unencodable leaf; non-trivial = the value contains a container or a text/descriptor leaf, or prefix > 0; "
                "distinct = distinct case lines")
    ctx.trusted = ["Coq 8.16.1 kernel", "extraction (ExtrOcamlBasic only) + ocaml/wire/driver.ml", "harness/src/bin/wire.rs, wirelib.rs, catalogue.rs",
                   "Wire/SpecEnc.v as my reading of the D-Bus wire format"]
    ctx.assumptions = ["usize is 64 bit, native byte order is little endian", "HashMap iteration order is taken from the implementation run and fed to the model",
                       "strings longer than 2^32-1 bytes are not exercised"]
    if not os.environ.get("VERIF_SKIP_PROOF"):
        ctx.try_proof()
    exe = vlib.harness_build(["wire"])["wire"]
    vlib.coq_make(["Wire/Ops.vo"])
    drv = vlib.ocaml_build("wire")

    cases = make_cases(ctx, 60 if thorough else 16, thorough)
    lines = []
    for api, ty, bo, prefix, toks, bad in cases:
        if api == "MT":
            lines.append("MT %s %s %d %s" % (ty, bo, prefix, " ".join(toks)))
        else:
            lines.append("MP %s %d %s" % (bo, prefix, " ".join(toks)))
    ok, impl, err = vlib.par_run_lines(exe, [], lines, robust=True)
    if not ok:
        ctx.tie_broken("wire harness crashed", err)
        return
    # second phase: the model gets the value in the order the implementation's maps iterated
    mlines = []
    for (api, ty, bo, prefix, toks, bad), out in zip(cases, impl):
        f = fields(out)
        val = f.get("val", " ".join(toks))
        if api == "MT":
            mlines.append("MT %s %s %d %s" % (ty, bo, prefix, val))
        else:
            mlines.append("MP %s %d %s" % (bo, prefix, val))
    ok, model, err = vlib.par_run_lines(drv, [], mlines)
    if not ok:
        ctx.tie_broken("extracted wire model crashed", err)
        return
    for case, line, mline, li, lm in zip(cases, lines, mlines, impl, model):
        api, ty, bo, prefix, toks, bad = case
        t = wg.parse_ext(ty)
        fi, fm = fields(li), fields(lm)
        nontrivial = prefix > 0 or t[0] != "b" or t[1] in "sogh"
        ctx.case(line, nontrivial=nontrivial,
                 sample={"case": line[:200], "impl": li[:160], "model": lm[:200]} if (nontrivial and ctx.evaluations % 97 == 0) else None)
        ctx.count("api:" + api)
        ctx.count("bo:" + bo)
        ctx.count("prefix%8=" + str(prefix % 8))
        ctx.count("kind:" + t[0])
        ctx.count("impl:" + fi["res"])
        ctx.count("with_bad_leaf" if bad else "all_leaves_valid")
        if fi["res"] in ("CRASH", "PANIC"):
            ctx.disagreements_checked += 1
            ctx.violation("marshalling crashed the process or panicked (%s)" % li[:60], {"line": line, "model_line": mline, "impl": li, "model_and_spec": lm})
            continue
        if fi["res"] not in ("ok", "err") or fm["res"] not in ("ok", "err"):
            ctx.tie_broken("unexpected output", "%s\nimpl: %s\nmodel: %s" % (line, li, lm))
            continue
        expect_sig = ("y" * prefix + wg.erased(t)).encode().hex()
        # ---- the property, evaluated on the implementation's own output against the specification
        why = None
        if fi["res"] == "ok":
            if fm["encodable"] != "true":
                why = "a value without a valid encoding was marshalled instead of refused"
            elif fi["buf"] != fm["spec"]:
                why = "marshalled bytes differ from the D-Bus encoding"
            elif fi["sig"] != expect_sig:
                why = "signature differs from the type's D-Bus signature"
        else:
            if fm["encodable"] == "true":
                why = "an encodable value was refused"
            elif fi.get("buf", "-") != (bytes((i * 37 + 1) % 256 for i in range(prefix)).hex() or "-"):
                why = "a refused value left bytes in the body"
        agree = (fi["res"] == fm["res"]) and (fi["res"] != "ok" or (fi["buf"] == fm["buf"] and fi["nfds"] == fm["nfds"]))
        if why:
            ctx.disagreements_checked += 1
            ctx.violation(why, {"line": line, "model_line": mline, "impl": li, "model_and_spec": lm})
        elif not agree:
            ctx.disagreements_checked += 1
            ctx.tie_broken("correspondence: marshal model and implementation differ although the specification is met",
                           "%s\nimpl: %s\nmodel: %s" % (line, li, lm))


def replay(ctx, body):
    d = body["data"]
    exe = vlib.harness_build(["wire"])["wire"]
    drv = vlib.ocaml_build("wire")
    _, out, _ = vlib.run_lines(exe, [], [d["line"]])
    _, mout, _ = vlib.run_lines(drv, [], [d["model_line"]])
    print("case :", d["line"])
    print("impl :", out[0])
    print("spec :", mout[0])
    fi, fm = fields(out[0]), fields(mout[0])
    bad = (fi["res"] == "ok" and (fm["encodable"] != "true" or fi["buf"] != fm["spec"])) or (fi["res"] == "err" and fm["encodable"] == "true")
    print("REPRODUCED" if bad else "not reproduced")
    return 1 if bad else 0
