"""C12 - a shared UnixFd is taken at most once, closed exactly once, in any interleaving.

Proof: coq/Properties/C12.v (model coq/Fd/Concurrent.v, invariant coq/Fd/ConcurrentProofs.v).
Tie: the schedule-controlled harness (harness/src/bin/c12.rs, real threads on the real UnixFd,
one schedule entry = one atomic action, through the verif_hooks points) and the extracted model
(ocaml/c12) run on the same (programs, schedule) lines; return values, the ordered dup/close
calls, the open descriptors and the sequence of points passed must be identical. Independently
of the model, the property itself is evaluated on every output of the implementation.
"""
import hashlib
import os
import re
import subprocess

import vlib

OPS = "TGDCXE"
FDS = [100, 3, 0, 7, 1, 2]          # small numbers; 0 -> the dup results are 1, 2 (stdin/stdout/stderr)
FD_MAX = 2 ** 31 - 1                # RawFd = i32
FD_EDGES = [2 ** 7, 2 ** 8, 2 ** 15, 2 ** 16, 2 ** 24, 2 ** 31]


def ndups(progs):
    return sum(1 for p in progs for op in p if op[0] == "D")


def pick_fd(rng, progs):
    """the shared descriptor's number over the whole range of RawFd. The simulated table hands out
    fd0+1, fd0+2, .. for the dups (model: next_fd = fd0 + 1, exact over Z), so fd0 just below an
    edge makes the dup results cross it; fd0 + (number of dup operations) never exceeds i32::MAX."""
    k = ndups(progs)
    r = rng.random()
    if r < 0.35:
        f = rng.choice(FDS)
    elif r < 0.8:
        e = rng.choice(FD_EDGES)
        f = e + rng.choice([-1, -1, -1, -2, -1 - k, -k, 0, 0, 1, rng.randrange(2, 5000)])
    else:
        f = rng.getrandbits(rng.randrange(1, 32))
    return max(0, min(f, FD_MAX - k))
# sha256 of the anchored part of unixfd.rs (everything above `impl Signature for UnixFd`), with
# whitespace removed, at the time the model was written; a different text makes the quick tier
# run a larger sample (drift is never reported as a violation by itself)
ANCHOR_SHAS = ("d41247189ab5ae74", "b9292dc45bd8d253")  # before / after the atomic-shim hook (two added `use` lines)


# ----------------------------------------------------------------------------- programs

def all_programs(maxlen, ops="TGDCXE"):
    """every program of at most maxlen operations that respects ownership (a clone and a dup are
    given the next handle number, which later operations may use)"""
    out = []

    def go(p, live, nx):
        out.append(tuple(p))
        if len(p) == maxlen:
            return
        for h in sorted(live):
            for o in ops:
                p.append(o + str(h))
                if o in "TX":
                    go(p, live - {h}, nx)
                elif o in "CD":
                    go(p, live | {nx}, nx + 1)
                else:
                    go(p, live, nx)
                p.pop()

    go([], frozenset([0]), 1)
    return out


def rand_program(rng, maxlen, notake=False):
    """notake: no take, and the program ends by dropping every handle it still owns (the
    close-by-the-last-drop path), which may make it longer than maxlen"""
    n = min(maxlen, rng.choice([0, 1, 2, 2, 3, 3, 3]))
    p, live, nx = [], {0}, 1
    for _ in range(n):
        if not live:
            break
        h = rng.choice(sorted(live))
        o = rng.choice("GDDCXEN" if notake else "TTGDDCXXEN")
        p.append(o + str(h))
        if o in "TX":
            live.discard(h)
        elif o in "CD":
            live.add(nx)
            nx += 1
    if notake:
        hs = sorted(live)
        rng.shuffle(hs)
        p += ["X%d" % h for h in hs]
    return tuple(p)


def final_live(p):
    """static ownership check (the model's own_ok): the handle numbers left at the end, or None
    if the program uses a handle it cannot own"""
    live, nx = {0}, 1
    for op in p:
        o, h = op[0], int(op[1:])
        if h not in live:
            return None
        if o in "TX":
            live.discard(h)
        elif o in "CD":
            live.add(nx)
            nx += 1
    return live


def fmt_prog(p):
    return ",".join(p) if p else "-"


def mk_line(fd0, progs, sched):
    return "%d;%s;%s" % (fd0, "|".join(fmt_prog(p) for p in progs), ",".join(str(t) for t in sched) if sched else "-")


def parse_line(line):
    a, b, c = line.split(";")
    progs = [tuple() if p.strip() in ("-", "") else tuple(x.strip() for x in p.split(",")) for p in b.split("|")]
    sched = [] if c.strip() in ("-", "") else [int(x) for x in c.split(",")]
    return int(a), progs, sched


# ----------------------------------------------------------------------------- the property, on an output of the implementation

def parse_out(out):
    f = out.split(";")
    if len(f) != 4:
        return None
    lst = lambda s: [] if s.strip() in ("-", "") else [x.strip() for x in s.split(",")]
    res = [lst(r) for r in f[0].split("|")]
    sysc = lst(f[1])
    try:
        opn = [int(x) for x in lst(f[2])]
    except ValueError:
        return None
    steps = []
    for x in lst(f[3]):
        m = re.match(r"^(\d+)\.(\d+):([a-z_.]+)$", x)
        if m:
            steps.append(("P", int(m.group(1)), int(m.group(2)), m.group(3)))
            continue
        m = re.match(r"^(\w+):(close|dup)\((-?\d+)\)(?:=(-?\d+|ERR|EBADF))?$", x)
        if m:
            steps.append(("S", m.group(1), m.group(2), int(m.group(3)), m.group(4)))
            continue
        return None
    return res, sysc, opn, steps


def points_of(po):
    return [(x[1], x[2], x[3]) for x in po[3] if x[0] == "P"]


def property_violations(fd0, progs, out):
    """clauses (a)-(e) of C12 evaluated on what the implementation did, for the shared object
    and for every object a dup created (objects are named by the descriptor they were created
    over). Returns a list of strings (empty = property holds on this execution), or None when the
    output cannot be interpreted."""
    po = parse_out(out)
    if po is None:
        return None
    res, sysc, opn, steps = po
    if len(res) != len(progs):
        return None
    bad = []
    # which object does each operation work on? (handles are followed through clone and dup results)
    opobj, kind, result = {}, {}, {}
    takes = {}          # object -> [(t, i, value)]
    objects = {fd0}
    for t, (p, r) in enumerate(zip(progs, res)):
        if len(p) != len(r):
            return None
        handles, nx = {0: fd0}, 1
        for i, (op, x) in enumerate(zip(p, r)):
            k, h = op[0], int(op[1:])
            kind[(t, i)] = k
            result[(t, i)] = x
            if x == "S":
                if h in handles:
                    return None
                if k in "CD":
                    nx += 1
                continue
            if h not in handles:
                return None
            f = handles[h]
            opobj[(t, i)] = f
            if k == "C":
                if x != "C":
                    return None
                handles[nx] = f
                nx += 1
            elif k == "X":
                if x != "X":
                    return None
                del handles[h]
            elif k == "T":
                m = re.match(r"^T=(-?\d+|none)$", x)
                if not m:
                    return None
                del handles[h]
                if m.group(1) != "none":
                    takes.setdefault(f, []).append((t, i, int(m.group(1))))
                    if int(m.group(1)) != f:
                        bad.append("(a) take on the handle of descriptor %d returned %s" % (f, m.group(1)))
            elif k == "G":
                m = re.match(r"^G=(-?\d+|none)$", x)
                if not m:
                    return None
                if m.group(1) != "none" and int(m.group(1)) != f:
                    bad.append("(a) get on the handle of descriptor %d returned %s" % (f, m.group(1)))
            elif k == "D":
                m = re.match(r"^D=(-?\d+|gone|err)$", x)
                if not m:
                    return None
                if m.group(1) in ("gone", "err"):
                    if m.group(1) == "err":
                        bad.append("dup failed although the descriptor table had room: %s" % x)
                    nx += 1
                else:
                    n = int(m.group(1))
                    if n in objects:
                        bad.append("(e) dup returned %d, the descriptor of an existing object" % n)
                    objects.add(n)
                    handles[nx] = n
                    nx += 1
            elif k in "EN":
                if x not in ("D=err", "D=gone"):
                    bad.append("dup(2) failed but UnixFd::dup returned %s" % x)
            else:
                return None
    # (a) the UnixFd a dup hands out carries the number dup(2) returned (the harness reads it with get_raw_fd)
    cur = {}
    for st in steps:
        if st[0] == "P":
            cur[str(st[1])] = (st[1], st[2])
        elif st[2] == "dup" and st[4] not in (None, "ERR", "EBADF") and st[1] in cur:
            x = result.get(cur[st[1]], "")
            m = re.match(r"^D=(-?\d+)$", x)
            if m and int(m.group(1)) != int(st[4]):
                bad.append("(a) dup(%d) returned %s but the UnixFd handed out by UnixFd::dup reports descriptor %s"
                           % (st[3], st[4], m.group(1)))
    for f, tk in takes.items():
        if len(tk) > 1:
            bad.append("(a) %d takes of descriptor %d returned Some: %s" % (len(tk), f, tk))
    # (b) operations on an object that start after its successful take's swap report gone
    first_pt = {}
    pos_of = []
    for pos, st in enumerate(steps):
        if st[0] == "P":
            first_pt.setdefault((st[1], st[2]), pos)
    for f, tk in takes.items():
        t0, i0, _ = tk[0]
        swap = [pos for pos, st in enumerate(steps) if st[0] == "P" and (st[1], st[2]) == (t0, i0) and st[3] in ("take.cas", "atomic.compare_exchange")]
        if not swap:  # no compare_exchange step seen: the handle's decrement is certainly after the swap
            swap = [pos for pos, st in enumerate(steps) if st[0] == "P" and (st[1], st[2]) == (t0, i0) and st[3] == "handle.drop"]
        if not swap:
            continue
        for (t, i), g in opobj.items():
            if g == f and kind[(t, i)] in "TGDEN" and (t, i) != (t0, i0) and first_pt.get((t, i), -1) > swap[0]:
                x = result[(t, i)]
                if not (x.endswith("=none") or x.endswith("=gone")):
                    bad.append("(b) thread %d op %d (%s on descriptor %d) started after the take's swap but returned %s"
                               % (t, i, progs[t][i], f, x))
    # (c)(d)(e): follow the number of live handles of every object through the sequence of steps
    count = {fd0: len(progs)}
    last_drop = {}
    closed = {}
    seq_sys = []
    for st in steps:
        if st[0] == "P":
            _, t, i, name = st
            f = opobj.get((t, i))
            if name == "clone.inc" and f is not None:
                count[f] = count.get(f, 0) + 1
            elif name == "handle.drop" and f is not None:
                count[f] = count.get(f, 0) - 1
                if count[f] == 0:
                    last_drop[f] = t
        else:
            _, who, call, arg, r = st
            seq_sys.append("%s(%d)%s@%s" % (call, arg, "" if r is None else "=" + r, who))
            if r == "EBADF":
                bad.append("(e) %s(%d) on a descriptor that is not open (double close or bogus number), by thread %s" % (call, arg, who))
                if call == "close":
                    closed[arg] = closed.get(arg, 0) + 1
                continue
            if call == "dup":
                if r != "ERR":
                    count[int(r)] = 1
                continue
            closed[arg] = closed.get(arg, 0) + 1
            if arg not in objects:
                bad.append("(e) the library closed %d, which is not a descriptor it owns" % arg)
                continue
            if count.get(arg, 0) != 0:
                bad.append("(c) close(%d) by thread %s while %d handle(s) on it are still alive (before the last drop)"
                           % (arg, who, count.get(arg, 0)))
            elif str(last_drop.get(arg)) != who:
                bad.append("(c) close(%d) was made by thread %s, the last handle was dropped by thread %s" % (arg, who, last_drop.get(arg)))
    if seq_sys != sysc:
        return None
    for f in objects:
        n = closed.get(f, 0)
        if n > 1:
            bad.append("(e) descriptor %d was closed %d times" % (f, n))
        if f in takes:
            if n != 0:
                bad.append("(d) a take of descriptor %d succeeded but the library closed it" % f)
        elif count.get(f, 0) == 0:
            if n != 1:
                bad.append("(c) nobody took descriptor %d and every handle on it was dropped, but close was called %d times" % (f, n))
        elif n != 0:
            bad.append("(c) a handle on descriptor %d is still alive but the library closed it" % f)
        if (f in opn) != (n == 0):
            bad.append("(c/e) simulated table inconsistent: descriptor %d open=%s after %d closes" % (f, f in opn, n))
    return bad


# ----------------------------------------------------------------------------- running

class Runner:
    def __init__(self, ctx, exe, model, mode="shim"):
        self.ctx = ctx
        self.exe = exe
        self.model = model
        self.model_run = "run" if mode == "shim" else "run-legacy"
        self.failing = []       # (line, impl_out, model_out, violations)
        self.disagree = []      # (line, impl_out, model_out)
        self.uninterp = []      # (line, out): outputs equal to the model's that the predicate cannot read
        self.nviol = 0

    def enum(self, heads, limit):
        rc, outs, err = vlib.run_lines(self.model, ["enum", str(limit)], heads, timeout=1800)
        if rc != 0 or len(outs) != len(heads):
            raise vlib.BrokenTie("model driver failed in enum mode", err[-2000:])
        return outs

    def batch(self, lines, kind):
        ctx = self.ctx
        if not lines:
            return
        ok, impl, err = vlib.par_run_lines(self.exe, [], lines, timeout=3600)
        if not ok:
            ctx.tie_broken("correspondence: the controller harness failed on a batch (%s)" % kind, err[-3000:])
            return
        # the watchdog is a hang detector only: under heavy machine load a step can take long, so a
        # HANG line is re-run alone, once, with a much longer deadline before it counts
        for k, a in enumerate(impl):
            if a.startswith("HANG"):
                ctx.count("hang_reruns")
                rc, again, _ = vlib.run_lines(self.exe, [], [lines[k]], timeout=1200, env={"C12_WATCHDOG_S": "600"})
                if rc == 0 and len(again) == 1:
                    impl[k] = again[0]
        ok, mod, err = vlib.par_run_lines(self.model, [self.model_run], lines, timeout=3600)
        if not ok:
            raise vlib.BrokenTie("model driver failed", err[-2000:])
        for line, a, b in zip(lines, impl, mod):
            fd0, progs, sched = parse_line(line)
            v = property_violations(fd0, progs, a)
            po = parse_out(a)
            pts = points_of(po) if po else []
            nthreads_active = len({p[0] for p in pts})
            canon = (tuple(progs), a.split(";")[3] if po else a)
            ctx.case(canon, nontrivial=nthreads_active >= 2,
                     sample={"input": line, "impl": a, "kind": kind} if nthreads_active >= 2 and len(pts) >= 6 else None)
            self.account(kind, progs, sched, po, a)
            hi = max([fd0] + (po[2] if po else []))
            ctx.count("largest_descriptor:%s" % ("0-7" if hi < 8 else "8-254" if hi < 255 else "255-65534" if hi < 65535 else
                                                 "65535-2^24" if hi <= 2 ** 24 else "2^24-i32::MAX" if hi < FD_MAX else "i32::MAX"))
            if v:
                self.nviol += 1
                self.failing.append((line, a, b, v))
            if v is None:
                # the predicate must be able to read every well-formed output: one it cannot read
                # although the model printed the same text is a defect of the predicate (it was
                # silent on every execution with a compare_exchange for a while), never ignored
                ctx.count("predicate_could_not_interpret_output")
                if a == b:
                    self.uninterp.append((line, a))
            else:
                ctx.count("predicate_evaluated_on_impl_output")
            if a != b:
                ctx.disagreements_checked += 1
                if v is None or not v:
                    self.disagree.append((line, a, b))

    def account(self, kind, progs, sched, po, out):
        ctx = self.ctx
        ctx.count("kind:" + kind)
        ctx.count("threads:%d" % len(progs))
        names = {"T": "take", "G": "get", "D": "dup", "E": "dup_failing_EMFILE", "N": "dup_failing_ENFILE", "C": "clone", "X": "drop"}
        for p in progs:
            for op in p:
                ctx.count("op:" + names[op[0]])
        ctx.count("schedule_len:%s" % ("0" if not sched else "1-4" if len(sched) <= 4 else "5-9" if len(sched) <= 9 else "10-19" if len(sched) <= 19 else "20+"))
        if po:
            res, sysc, opn, steps = po
            pts = points_of(po)
            ctx.count("atomic_steps:%s" % ("0-4" if len(pts) <= 4 else "5-9" if len(pts) <= 9 else "10-19" if len(pts) <= 19 else "20+"))
            taken = any(x.startswith("T=") and x != "T=none" for r in res for x in r)
            ncl = sum(1 for s in sysc if s.startswith("close("))
            ctx.count("outcome:" + ("taken" if taken else "closed_by_last_drop" if ncl else "still_alive"))
            if any(s.startswith("dup(") and "=ERR" in s for s in sysc):
                ctx.count("dup_syscall_failed")
                if len({p[0] for p in pts}) >= 2:
                    ctx.count("dup_syscall_failed_with_other_threads_active")
            if any(s.startswith("dup(") and "=ERR" not in s for s in sysc):
                ctx.count("dup_created_object")
            if ncl >= 2:
                ctx.count("two_objects_closed")
            if any(x == "S" for r in res for x in r):
                ctx.count("operation_skipped_handle_never_created")
            # an operation interrupted by another thread between two of its own atomic actions
            inter = False
            last = {}
            for pos, (t, i, name) in enumerate(pts):
                if (t, i) in last and last[(t, i)] != pos - 1:
                    inter = True
                last[(t, i)] = pos
            ctx.count("op_interrupted_by_other_thread:" + ("yes" if inter else "no"))
            if any(x == "T=none" for r in res for x in r) and taken:
                ctx.count("losing_take_observed")
        else:
            ctx.count("outcome:" + out.split(" ")[0][:12])


def shrink(exe, line, still_bad):
    """greedy: drop trailing operations / threads / schedule entries while the failure persists"""
    fd0, progs, sched = parse_line(line)
    budget = 40
    while budget > 0:
        budget -= 1
        cands = []
        for k in range(len(sched)):
            cands.append((progs, sched[:k] + sched[k + 1:]))
        for t in range(len(progs)):
            if progs[t]:
                q = list(progs)
                q[t] = progs[t][:-1]
                cands.append((q, sched))
        if len(progs) > 1 and not progs[-1]:
            cands.append((progs[:-1], [s for s in sched if s < len(progs) - 1]))
        cands = [(p, s) for p, s in cands if all(final_live(x) is not None for x in p)]
        if not cands:
            break
        lines = [mk_line(fd0, p, s) for p, s in cands]
        rc, outs, err = vlib.run_lines(exe, [], lines, timeout=600)
        if rc != 0 or len(outs) != len(lines):
            break
        hit = None
        for (p, s), l, o in zip(cands, lines, outs):
            if still_bad(fd0, p, o):
                hit = (p, s)
                break
        if hit is None:
            break
        progs, sched = hit
    return mk_line(fd0, progs, sched)


def anchor_sha():
    try:
        txt = open(os.path.join(vlib.REPO, "rustbus/src/wire/wrapper_types/unixfd.rs")).read()
    except OSError:
        return "unreadable"
    txt = txt.split("impl Signature for UnixFd")[0]
    return hashlib.sha256(re.sub(r"\s+", "", txt).encode()).hexdigest()[:16]


def coq_term(line):
    fd0, progs, sched = parse_line(line)
    name = {"T": "Take", "G": "Get", "D": "Dup", "E": "DupFail", "N": "DupFail", "C": "Clone", "X": "Drop"}
    ps = "[" + "; ".join("[" + "; ".join("%s %s%%nat" % (name[o[0]], o[1:]) for o in p) + "]" for p in progs) + "]"
    ss = "[" + "; ".join("%d%%nat" % t for t in sched) + "]"
    return "(encode (observe (%d)%%Z %s %s))" % (fd0, ps, ss)


def cross_check_extraction(ctx, model, lines):
    """the extracted OCaml model against vm_compute inside Coq, on a sample"""
    if not lines:
        return
    v = ["From RB Require Import Base.Prelude Fd.Concurrent.", "Local Open Scope Z_scope."]
    for l in lines:
        v.append("Eval vm_compute in %s." % coq_term(l))
    out = vlib.coq_eval("c12_cases", "\n".join(v) + "\n")
    blocks = re.findall(r"=\s*\[([^\]]*)\]", out)
    rc, enc, err = vlib.run_lines(model, ["encode"], lines, timeout=600)
    if rc != 0 or len(enc) != len(lines) or len(blocks) != len(lines):
        ctx.tie_broken("extraction cross-check could not be evaluated (%d coq results, %d ocaml results for %d cases)"
                       % (len(blocks), len(enc), len(lines)), out[-1500:] + err[-500:])
        return
    for l, b, e in zip(lines, blocks, enc):
        cv = [int(x) for x in re.findall(r"-?\d+", b)]
        ov = [int(x) for x in e.split()]
        ctx.count("extraction_cross_check_cases")
        if cv != ov:
            ctx.tie_broken("extracted OCaml model disagrees with vm_compute in Coq", "%s\ncoq=%s\nocaml=%s" % (l, cv, ov))
            return


def probe_mode(exe):
    try:
        p = subprocess.run([exe, "--probe"], stdout=subprocess.PIPE, stderr=subprocess.PIPE, text=True, timeout=120)
        m = p.stdout.strip()
    except Exception:
        m = ""
    return m if m in ("shim", "legacy") else "legacy"


def shim_required():
    """the atomic shim is a second hook commit; once it is recorded its absence breaks the tie"""
    try:
        import json
        h = json.load(open(os.path.join(vlib.VERIF, "manifest.d", "_hooks.json")))
        return len(h.get("source_commits", [])) >= 2
    except Exception:
        return False


def stress_test(ctx, exe, rounds):
    try:
        p = subprocess.run([exe, "--stress", str(rounds)], stdout=subprocess.PIPE, stderr=subprocess.PIPE, text=True, timeout=1800)
        out = p.stdout.strip()
    except subprocess.TimeoutExpired:
        out = "TIMEOUT"
    m = re.match(r"^rounds=(\d+) double_take=(\d+) wrong_value=(\d+) bad_close=(\d+)$", out)
    ctx.extra["stress_test"] = {"what": "TEST, not proof: uncontrolled real threads, two spinning takers per round on a fresh UnixFd",
                                "result": out}
    if not m:
        ctx.tie_broken("stress stream of the harness did not complete", out[-500:])
        return
    n, dt, wv, bc = (int(x) for x in m.groups())
    ctx.count("stress_test_rounds", n)
    if dt or wv or bc:
        ctx.violation("UnixFd shared between threads (uncontrolled stress run): %d of %d rounds had two successful takes, %d a wrong "
                      "value, %d a wrong number of closes" % (dt, n, wv, bc),
                      {"stress_rounds": n, "impl": out, "expected": "rounds=%d double_take=0 wrong_value=0 bad_close=0" % n})


def report(ctx, rn):
    # property violations found on the implementation's own outputs
    if rn.failing:
        rn.failing.sort(key=lambda x: (len(x[0]), x[0]))
        seen = set()
        for line, a, b, v in rn.failing:
            key = tuple(sorted({x.split(" ")[0] for x in v}))
            if key in seen:
                continue
            seen.add(key)
            small = shrink(rn.exe, line, lambda fd0, p, o: bool(property_violations(fd0, p, o)))
            rc, outs, _ = vlib.run_lines(rn.exe, [], [small], timeout=120)
            so = outs[0] if outs else a
            fd0, progs, sched = parse_line(small)
            sv = property_violations(fd0, progs, so) or v
            rc, mo, _ = vlib.run_lines(rn.model, [rn.model_run], [small], timeout=120)
            ctx.violation("UnixFd shared between threads: " + "; ".join(sv),
                          {"line": small, "input": {"fd0": fd0, "programs": [list(p) for p in progs], "schedule": sched},
                           "impl": so, "expected": mo[0] if mo else b, "violated": sv,
                           "found_as": line, "failing_cases_in_this_run": rn.nviol})
            if len(seen) >= 4:
                break
    elif rn.uninterp:
        rn.uninterp.sort(key=lambda x: (len(x[0]), x[0]))
        ctx.tie_broken("checks/c12.py: the property predicate (property_violations) cannot interpret %d outputs of the "
                       "implementation that are identical to the model's: the 'property evaluated on the implementation's "
                       "own output' part of the check is not running on them" % len(rn.uninterp),
                       "first (shortest) input: %s\noutput: %s" % rn.uninterp[0])
    elif rn.disagree:
        rn.disagree.sort(key=lambda x: (len(x[0]), x[0]))
        line, a, b = rn.disagree[0]
        only_points = all(x.split(";")[:3] == y.split(";")[:3] for _, x, y in rn.disagree)
        if only_points:
            ctx.tie_broken("correspondence relation `harness line = observe fd0 progs sched` (coq/Fd/Concurrent.v, Definition observe) "
                           "no longer checks in its 4th component (exec_obs: the sequence of atomic operations and system calls): "
                           "return values and dup/close calls agree, but the implementation performs a different sequence of "
                           "atomic operations than the model on %d cases - the model no longer mirrors unixfd.rs step by step, "
                           "so the theorems of Properties/C12.v are about different code" % len(rn.disagree),
                           "first (shortest) input: %s\nimpl : %s\nmodel: %s" % (line, a, b))
            return
        ctx.tie_broken("correspondence relation `harness line = observe fd0 progs sched` (coq/Fd/Concurrent.v, Definition observe: "
                       "return values, dup/close calls, open descriptors, sequence of atomic operations) no longer checks: model and "
                       "implementation disagree on %d of the cases, and the property predicate does not fail on any output of the "
                       "implementation" % len(rn.disagree),
                       "first (shortest) disagreeing input: %s\nimpl : %s\nmodel: %s" % (line, a, b))


# ----------------------------------------------------------------------------- entry points

def setup(ctx):
    ctx.rule = ("a case = (fd0 over the whole range of RawFd: 0..7/100, just below / at / above 2^7, 2^8, 2^15, 2^16, 2^24 and up to "
                "i32::MAX, random bit lengths - the simulated dup returns fd0+1, fd0+2, .. so dup results cross the same edges -, one program per thread over {take,get,dup,dup whose dup(2) fails with EMFILE/ENFILE,clone,drop} on "
                "thread-local handles respecting ownership - the UnixFd returned by a dup is a handle like any other and is "
                "taken/cloned/dup'ed/dropped by later operations -, schedule = list of thread ids); one schedule entry = one atomic "
                "action (load / compare_exchange / Arc increment / Arc decrement / dup / close) of the real UnixFd, then "
                "run-to-completion lowest thread first. Small scopes: program pairs of 2 threads x <=2 ops and triples of 3 threads "
                "x <=1 op with ALL maximal interleavings enumerated on the model (thorough: every pair and triple; quick: a seeded "
                "sample of 320 pairs and 90 triples); sampled part: 2-3 threads x <=3 ops (30%: take-free programs that end by "
                "dropping every handle) with random schedules; thorough: also all interleavings of 5000 random pairs of 2 threads "
                "x <=3 ops. distinct = distinct (programs, executed sequence of (thread, op, point) and system calls); non-trivial "
                "= at least two threads performed atomic actions")
    ctx.trusted = [
        "Coq 8.16.1 kernel incl. vm_compute (Print Assumptions: closed under the global context)",
        "std::sync::Arc modelled: clone = atomic increment, drop = atomic decrement, destructor runs once in the thread that reached 0",
        "AtomicI32 SeqCst operations modelled as interleaving semantics (no weak-memory effects; the code uses SeqCst only)",
        "verif_hooks (add-only cfg feature): the atomic cell of unixfd.rs is atomic_shim::AtomicI32, every access to it is a scheduling point named after the operation; dup/close go through nix_shim; the Arc decrement has a point in a cfg-only Drop impl; Arc::clone's point is supplied by the harness (std::sync::Arc itself is not instrumented)",
        "schedule controller harness/src/bin/c12.rs (Mutex/Condvar hand-over, simulated dup/close table) and its OCaml counterpart ocaml/c12/driver.ml",
        "OCaml extraction (ExtrOcamlBasic only), cross-checked against vm_compute on a sample each run",
        "checks/c12.py: generators, string comparison, property predicate",
    ]
    ctx.assumptions = [
        "each handle is used by one thread and not after it was dropped or taken (Rust ownership; programs violating it are not generated)",
        "fd0 <> -1 (UnixFd::new(-1) is born in the 'taken' state)",
        "dup(2) fails only where the program says so (operations E/N: EMFILE/ENFILE); the errno value itself is not modelled",
        "the get-then-dup(2) window against a taker who closes and reuses the number is outside the statement (DESIGN.md C12 residual)",
    ]


def run(ctx):
    setup(ctx)
    ctx.try_proof()
    exe = vlib.harness_build(["c12"], features=("verif_hooks",))["c12"]
    model = vlib.ocaml_build("c12")
    mode = probe_mode(exe)
    ctx.extra["atomic_shim"] = mode
    if mode != "shim":
        msg = ("the crate under test does not route UnixFdInner's atomic cell through verif_hooks::atomic_shim "
               "(patch notes/patches/c12-atomic-shim.diff): the controller then stops threads only at the label points, "
               "'one point = one atomic operation' is assumed and a non-atomic read-modify-write between two points is invisible")
        if shim_required():
            ctx.tie_broken("tie: atomic shim hook missing from the crate although manifest.d/_hooks.json records it", msg)
        else:
            ctx.assumptions.append("LEGACY MODE (atomic shim hook not yet in /repo): " + msg)
    rn = Runner(ctx, exe, model, mode)
    rng = ctx.rng
    thorough = ctx.tier == "thorough"
    sha = anchor_sha()
    drift = sha not in ANCHOR_SHAS
    ctx.extra["anchor_text_sha"] = sha
    ctx.extra["anchor_drift"] = drift

    # --- corpus (minimised past failures) first
    cdir = os.path.join(vlib.VERIF, "corpus", "C12")
    corpus = []
    if os.path.isdir(cdir):
        for f in sorted(os.listdir(cdir)):
            if f.endswith(".case"):
                corpus += [l.strip() for l in open(os.path.join(cdir, f)) if l.strip() and not l.startswith("#")]
    rn.batch(corpus, "corpus")

    # --- small scopes: ALL interleavings of every program set (quick: of a seeded sample of the sets)
    P1, P2 = all_programs(1), all_programs(2)
    pairs = [(a, b) for a in P2 for b in P2]
    triples = [(a, b, c) for a in P1 for b in P1 for c in P1]
    if not thorough and not drift:
        pairs = rng.sample(pairs, 320)
        triples = rng.sample(triples, 90)
    heads = [(pick_fd(rng, p), p) for p in pairs + triples]
    scheds = rn.enum([mk_line(f, p, []) for f, p in heads], 10 ** 6)
    lines = []
    complete = True
    for (f, p), s in zip(heads, scheds):
        if s == "TOOMANY":
            complete = False
            continue
        for one in s.split(" "):
            lines.append(mk_line(f, p, [int(x) for x in one.split(",")] if one not in ("", "-") else []))
    rn.batch(lines, "all-interleavings-2x2-3x1")
    ctx.extra["exhaustive_scope"] = ("all interleavings of %d of the %d program pairs (2 threads x <=2 ops over take/get/dup/failing dup/clone/drop) "
                                     "and %d of the %d triples (3 threads x <=1 op): %d schedules"
                                     % (len(pairs), len(P2) ** 2, len(triples), len(P1) ** 3, len(lines)))
    ctx.exhaustive = complete and (thorough or drift)
    sample_for_coq = rng.sample(lines, min(len(lines), 40))

    # --- sampled: 2-3 threads x <=3 ops, random schedules (entries may name finished or non-existing threads)
    nrand = 60000 if thorough else (20000 if drift else 2500)
    lines = []
    for _ in range(nrand):
        n = rng.choice([2, 3, 3])
        notake = rng.random() < 0.3
        progs = [rand_program(rng, 2 if notake else 3, notake) for _ in range(n)]
        ln = rng.choice([0, 2, 4, 6, 8, 10, 12, 16, 20, 24])
        hi = n if rng.random() < 0.9 else n + 1
        sched = [rng.randrange(hi) for _ in range(ln)]
        lines.append(mk_line(pick_fd(rng, progs), progs, sched))
    rn.batch(lines, "random-2-3x3")
    sample_for_coq += rng.sample(lines, min(len(lines), 60 if not thorough else 400))

    # --- thorough: all interleavings of a large sample of the 162 409 pairs of 2 threads x <=3 ops, in chunks
    if thorough or drift:
        P3 = all_programs(3)
        npairs = 5000 if thorough else 500
        pairs = [(rng.choice(P3), rng.choice(P3)) for _ in range(npairs)]
        for k in range(0, len(pairs), 500):
            chunk = pairs[k:k + 500]
            fs = [pick_fd(rng, p) for p in chunk]
            scheds = rn.enum([mk_line(f, p, []) for f, p in zip(fs, chunk)], 20000)
            lines = []
            for f, p, s in zip(fs, chunk, scheds):
                if s == "TOOMANY":
                    ctx.count("2x3_pairs_skipped_more_than_20000_interleavings")
                    continue
                for one in s.split(" "):
                    lines.append(mk_line(f, p, [int(x) for x in one.split(",")] if one not in ("", "-") else []))
            rn.batch(lines, "all-interleavings-2x3-sampled-pairs")
            if len(rn.failing) > 2000:
                break

    # --- a plain real-thread stress stream (a TEST, never cited as proof): two spinning takers on a fresh descriptor
    stress_test(ctx, exe, 3000000 if thorough else 200000)

    # --- the extracted model against Coq itself
    for k in range(0, len(sample_for_coq), 400):
        cross_check_extraction(ctx, model, sample_for_coq[k:k + 400])

    report(ctx, rn)


def replay(ctx, body):
    setup(ctx)
    data = body.get("data", {})
    line = data.get("line")
    if not line and data.get("stress_rounds"):
        exe = vlib.harness_build(["c12"], features=("verif_hooks",))["c12"]
        p = subprocess.run([exe, "--stress", str(data["stress_rounds"])], stdout=subprocess.PIPE, text=True, timeout=1800)
        out = p.stdout.strip()
        print("stress stream (a test; probabilistic): %s" % out)
        bad = not re.match(r"^rounds=\d+ double_take=0 wrong_value=0 bad_close=0$", out)
        print("REPRODUCED: property C12 violated in an uncontrolled run" if bad else "not reproduced in this run (the stress stream is probabilistic)")
        return 1 if bad else 0
    if not line:
        print("replay file carries no input line (it records a broken proof/correspondence): %s" % body.get("what"))
        print(str(data)[:3000])
        return 2
    exe = vlib.harness_build(["c12"], features=("verif_hooks",))["c12"]
    model = vlib.ocaml_build("c12")
    rc, impl, err = vlib.run_lines(exe, [], [line], timeout=120)
    rc2, mod, err2 = vlib.run_lines(model, ["run" if probe_mode(exe) == "shim" else "run-legacy"], [line], timeout=120)
    fd0, progs, sched = parse_line(line)
    a = impl[0] if impl else "<no output> " + err[-500:]
    b = mod[0] if mod else "<no output> " + err2[-500:]
    v = property_violations(fd0, progs, a)
    print("input          : %s" % line)
    print("implementation : %s" % a)
    print("model          : %s" % b)
    if v:
        print("REPRODUCED: property C12 violated: " + "; ".join(v))
        return 1
    if a != b:
        print("REPRODUCED: model and implementation disagree (property predicate not violated on this output)")
        return 1
    print("not reproduced: the implementation's output satisfies the property and equals the model's")
    return 0
