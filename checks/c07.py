"""C07 - signature parsers accept exactly the D-Bus signature grammar and agree.

Proof: coq/Properties/C07.v (validator = grammar, parser = grammar, agreement, printing, splitting,
totality; unbounded). Tie: the extracted model (ocaml/c07) and the real crate (harness bin c07) run
on the same strings: exhaustive enumeration over the 19 type characters, boundary strings, and
grammar-generated / mutated / foreign-character strings.  Because the model is *proved* equal to the
grammar, any verdict on which the implementation differs from the model is an input on which the
implementation differs from the grammar, i.e. a concrete property violation.
"""
import concurrent.futures as cf
import glob
import os
import subprocess

import vlib

ALPHA = b"()abynqiuhxtdsog{}v"
BASIC = b"ybnqiuxtdhsog"


def hx(b):
    return b.hex() if b else "-"


def run_tasks(exe, tasks, timeout=3000):
    """each task (list of input lines) in its own process; returns list of output line lists"""
    def one(lines):
        p = subprocess.run([exe], input="\n".join(lines) + "\n", stdout=subprocess.PIPE,
                           stderr=subprocess.PIPE, text=True, timeout=timeout)
        return p.returncode, p.stdout.split("\n")[:-1], p.stderr
    with cf.ThreadPoolExecutor(vlib.NPROC) as ex:
        return list(ex.map(one, tasks))


# ------------------------------------------------------------------ generators (all from ctx rng)

def gen_type(r, depth):
    k = r.random()
    if depth <= 0 or k < 0.35:
        return bytes([r.choice(BASIC)])
    if k < 0.45:
        return b"v"
    if k < 0.65:
        return b"a" + gen_type(r, depth - 1)
    if k < 0.8:
        return b"a{" + bytes([r.choice(BASIC)]) + gen_type(r, depth - 1) + b"}"
    n = r.choice([1, 1, 2, 2, 3, 5])
    return b"(" + b"".join(gen_type(r, depth - 1) for _ in range(n)) + b")"


def gen_sig(r):
    n = r.choice([1, 1, 2, 3, 4])
    return b"".join(gen_type(r, r.choice([0, 1, 2, 3, 5])) for _ in range(n))


FOREIGN = ["é", "٣", "\x00", " ", "A", "z", "€", "😀", "\x7f", "r", "e", "m", "w", "1", "-"]


def mutate(r, s):
    s = bytearray(s)
    k = r.randrange(6)
    if k == 0 and s:
        del s[r.randrange(len(s))]
    elif k == 1:
        s.insert(r.randrange(len(s) + 1), r.choice(ALPHA))
    elif k == 2 and s:
        s[r.randrange(len(s))] = r.choice(ALPHA)
    elif k == 3:
        pos = r.randrange(len(s) + 1)
        s[pos:pos] = r.choice(FOREIGN).encode()
    elif k == 4 and len(s) >= 2:
        i, j = sorted(r.sample(range(len(s)), 2))
        s[i], s[j] = s[j], s[i]
    else:
        s = s + bytearray(gen_type(r, 2)) if r.random() < 0.5 else s[: r.randrange(len(s) + 1)]
    try:
        bytes(s).decode("utf-8")
    except UnicodeDecodeError:
        return None
    return bytes(s)


# innermost types put at the bottom of EVERY depth-boundary shape: a fixed-size basic type, the variant (a container
# without a closing character: it must not count as a struct or array level), string-like types, the fd type, and
# small containers that add one array / struct level of their own (so the 31/32 shapes reach the limit through them)
LEAVES = [b"y", b"v", b"s", b"g", b"h", b"av", b"a{sv}", b"(y)", b"(v)"]


def member_position_shapes(L=b"y", ns=(31, 32, 33, 34)):
    """nesting boundaries with the deep part at EVERY member position: the depth counters must be applied to each
    member of a struct (first, middle, last) and to a dict value, not only to the first or the last one.  n counts
    the levels of the kind that is at its limit (32 allowed, 33 not).  L is the innermost type."""
    out = []
    wraps = [(b"(", b")"), (b"(y", b")"), (b"(", b"y)"), (b"(y", b"y)"), (b"(yy", b")"), (b"(a{sv}", b"ay)")]
    for n in ns:
        deep_s = b"(" * (n - 1) + L + b")" * (n - 1)            # n-1 struct levels; one more comes from the wrapper
        deep_a = b"a" * n + L                                     # n array levels
        deep_a1 = b"a" * (n - 1) + L                              # n-1 array levels; the dict/array wrapper adds one
        # (1) the same member position at every level: (y(y(y..L..))) / (((..L..)y)y) / (y(y(..L..)y)y)
        for pre, post in wraps:
            if len(pre + post) * n + len(L) <= 255:
                out.append(pre * n + L + post * n)
        # (2) one struct around the deep struct nest, deep part first / middle / last / after a container member
        for pre, post in wraps[1:]:
            out.append(pre + deep_s + post)
        # (3) the deep struct nest two levels down at a non-first and a non-last position
        deep_s2 = b"(" * (n - 2) + L + b")" * (n - 2)
        out.append(b"(y(y" + deep_s2 + b"))")
        out.append(b"((" + deep_s2 + b"y)y)")
        out.append(b"(y(" + deep_s2 + b"y))")
        out.append(b"((y" + deep_s2 + b")y)")
        # (4) deep struct nest as a dict value, and as a later member of a struct that is a dict value
        out.append(b"a{s" + b"(" * n + L + b")" * n + b"}")
        out.append(b"a{s(y" + deep_s + b")}")
        out.append(b"a{s(" + deep_s + b"y)}")
        out.append(b"(ya{s" + deep_s + b"})")
        out.append(b"(a{s" + deep_s + b"}y)")
        out.append(b"(ya{s(y" + deep_s2 + b")}y)")
        # (5) deep ARRAY nest at every member position of a struct, as a dict value, and below an array of structs
        out.append(b"(" + deep_a + b")")
        out.append(b"(y" + deep_a + b")")
        out.append(b"(" + deep_a + b"y)")
        out.append(b"(y" + deep_a + b"y)")
        out.append(b"(y(y" + deep_a + b"))")
        out.append(b"((" + deep_a + b"y)y)")
        out.append(b"a{s" + deep_a1 + b"}")
        out.append(b"(ya{s" + deep_a1 + b"})")
        out.append(b"(a{s" + deep_a1 + b"}y)")
        out.append(b"a(y" + deep_a1 + b")")
        out.append(b"a(" + deep_a1 + b"y)")
        out.append(b"a{s(y" + deep_a1 + b")}")
        out.append(b"a{s(" + deep_a1 + b"y)}")
        # (6) arrays of structs all the way down, element at a non-first / non-last member: a(ya(ya(y..L)))
        for pre, post in ((b"a(y", b")"), (b"a(", b"y)"), (b"a(y", b"y)"), (b"a{s(y", b")}"), (b"a{s(", b"y)}")):
            if len(pre + post) * n + len(L) <= 255:
                out.append(pre * n + L + post * n)
    return out


def nest_shapes(L=b"y", ns=range(29, 37), totals=(31, 32, 33, 34, 40, 64, 65)):
    """pure and mixed nests of n levels around the innermost type L"""
    out = []
    for n in ns:
        out.append(b"a" * n + L)
        out.append(b"(" * n + L + b")" * n)
        out.append(b"a{s" * n + L + b"}" * n)
        out.append(b"(a{s" * n + L + b"})" * n)
        out.append(b"a(" * n + L + b")" * n)
        out.append(b"a" * n + b"(" * n + L + b")" * n)
        out.append(b"(" * n + b"a" * n + L + b")" * n)
        out.append(b"(" * n + b"a{s" * n + L + b"}" * n + b")" * n)
    # mixed nests: the array and struct counters must both survive entering the other kind of container, at every
    # split of the total, and as a non-first / non-last member of a sequence of types
    for total in totals:
        for m in sorted({0, 1, 2, total // 2, total - 2, total - 1, total}):
            n = total - m
            if m < 0 or n < 0:
                continue
            out.append(b"a" * m + b"(" + b"a" * n + L + b")")
            out.append(b"(" * m + b"a" + b"(" * n + L + b")" * (n + m))
            out.append(b"(" * m + b"a" * n + L + b")" * m)
            out.append(b"a" * m + b"{s" + b"a" * n + L + b"}" if m > 0 else L)
            out.append(b"(" * m + b"a{s" + b"(" * n + L + b")" * n + b"}" + b")" * m)
    return out


def leaf_shapes():
    """every depth-boundary shape (struct, array, dict and mixed nests, every member position; 31..34 levels) with
    each of the other LEAVES at the innermost position"""
    out = []
    for L in LEAVES[1:]:
        out += nest_shapes(L, ns=(31, 32, 33, 34), totals=(31, 32, 33, 34))
        out += member_position_shapes(L)
    return list(dict.fromkeys(out))


def seq_variants(b):
    """the string as a non-first / non-last / repeated member of a top-level sequence of types"""
    return [b"y" + b, b + b"y", b"y" + b + b"y", b + b]


def boundary_strings(r=None, thorough=False):
    out = []
    for n in range(29, 37):
        out.append(b"a" * n + b"v")
        out.append(b"a" * n)
        out.append(b"(" * n + b")" * n)
    out += nest_shapes()
    for n in (253, 254, 255, 256, 257, 300):
        out.append(b"y" * n)
        out.append(b"(" + b"i" * (n - 2) + b")")
        out.append(b"ay" * (n // 2) + b"y" * (n % 2))
    out += member_position_shapes()
    base = list(out)
    for b in base:
        if len(b) < 250:
            out += seq_variants(b)
    # the same shapes around every other leaf; their sequence variants: all in the thorough tier, one drawn per
    # shape in the quick tier
    for b in leaf_shapes():
        out.append(b)
        if len(b) < 250:
            vs = seq_variants(b)
            out += vs if (thorough or r is None) else [r.choice(vs)]
    out += [b"", b"a{bv}", b"()", b"{sv}", b"a{vs}", b"a{(i)s}", b"a{ss", b"a{s}", b"a{sss}", b"a()", b"(a)", b"a{ay s}",
            b"aa{sv}", b"a{sa{sv}}", b"(a{sv}a{sv})", b"a{s(", b"}", b"{", b")", b"("]
    return list(dict.fromkeys(out))


# ------------------------------------------------------------------ property predicate on one pair of lines

def parse_line(line):
    parts = line.split(" ")
    d = {"hex": parts[0]}
    for p in parts[1:]:
        if ":" in p:
            k, v = p.split(":", 1)
            d[k] = v
        else:
            d[p] = True
    return d


def judge(impl_line, model_line):
    """returns None when the implementation behaves as the specification (= proved model) says,
    otherwise a description of the property clause that fails on this input"""
    i, m = parse_line(impl_line), parse_line(model_line)
    if i["hex"] != m["hex"]:
        return "harness/driver out of step (%s vs %s)" % (i["hex"], m["hex"])
    if "NOTUTF8" in i:
        return None
    valid = m["V"] == "ok"                     # proved: model validator accepts <-> grammar
    if i["V"] == "panic" or i["P"] == "panic":
        return "a signature function panicked"
    if (i["V"] == "ok") != valid:
        return "validate_signature %s a string that %s in the grammar" % ("accepts" if i["V"] == "ok" else "rejects", "is" if valid else "is not")
    # every string, the empty one included (the grammar's empty sequence of complete types)
    if (i["P"] == "ok") != valid:
        return "parse_description %s a string that %s in the grammar" % ("accepts" if i["P"] == "ok" else "rejects", "is" if valid else "is not")
    if (i["P"] == "ok") != (i["V"] == "ok"):
        return "parser and validator disagree"
    if i["P"] == "ok" and i["R"] != i["hex"]:
        return "printing the parsed signature does not reproduce the input"
    if i.get("W") != i["V"]:
        return "SignatureWrapper::new / TryFrom give verdict %s where validate_signature gives %s" % (i.get("W"), i["V"])
    if valid and i.get("X") != "ok":
        return "SignatureIter::new_at_idx at a top-level boundary does not yield the remaining complete types (%s)" % i.get("X")
    if valid and i["S"] != m["S"]:
        return "the signature splitter does not yield the top-level complete types"
    if i["P"] != m["P"]:
        return "parser verdict differs from the model"
    return None


def run(ctx):
    thorough = ctx.tier == "thorough"
    ctx.rule = ("strings = exhaustive enumeration of all strings over the 19 type characters up to length %d "
                "(enumerated inside the harness and the extracted model, compared by accepted set and count), "
                "the empty string included; fixed nesting/length boundary strings (nesting limits 31..34 with the deep part at every "
                "member position of a struct - first, middle, last, after a container member - and as a dict value, every such shape "
                "with each of the innermost types y v s g h av a{sv} (y) (v), each also "
                "prefixed/suffixed/doubled and mutated), grammar-generated valid signatures and their single "
                "mutations incl. foreign characters; a case is non-trivial when it contains a container character "
                "( ) a { }; distinct = distinct byte strings") % (6 if thorough else 5)
    ctx.trusted = ["Coq 8.16.1 kernel (coqc), no native_compute", "extraction with ExtrOcamlBasic only, ocamlfind ocamlopt 4.13.1",
                   "ocaml/c07/driver.ml and harness/src/bin/c07.rs (I/O wrappers)",
                   "Sig/Grammar.v is my reading of the D-Bus signature grammar"]
    ctx.assumptions = ["signatures are given as UTF-8 bytes; the model works on bytes (non-ASCII chars are rejected by both, an error ends the parse)",
                       "usize is 64 bit"]
    ctx.try_proof()
    exe = vlib.harness_build(["c07"])["c07"]
    vlib.coq_make(["Sig/Iter.vo", "Sig/Validator.vo", "Sig/Parser.vo", "Sig/Examples.vo"])
    drv = vlib.ocaml_build("c07")
    # the behaviour before /repo commit f8eb89e (parse_description("") = Err(EmptySignature)) is kept refuted
    try:
        vlib.coq_make(["History/ParserOld.vo"])
        ctx.extra["historical_lemma"] = ("History/ParserOld.v: C07_old_parser_refuted builds (witness: the empty string - "
                                         "old parser Err, validator Ok, in the grammar)")
    except vlib.BrokenTie as bt:
        ctx.extra["historical_lemma"] = "History/ParserOld.v does not build: " + bt.what

    # ---------------- stream 1: corpus + boundaries + generated strings (explicit lines)
    r = ctx.sub_rng("gen")
    strings = []
    for f in sorted(glob.glob(os.path.join(vlib.VERIF, "corpus", "C07", "*.case"))):
        for line in open(f):
            line = line.strip()
            if line and not line.startswith("#"):
                strings.append(bytes.fromhex(line) if line != "-" else b"")
    ncorpus = len(strings)
    bnd = boundary_strings(r, thorough)
    strings += bnd
    ctx.count("explicit:boundary-shapes", len(bnd))
    ctx.count("explicit:boundary-shapes-with-non-y-leaf", len(leaf_shapes()))
    for b in bnd:
        for _ in range(2 if thorough else 1):
            m = mutate(r, b)
            if m is not None:
                strings.append(m)
    ngen = 40000 if thorough else 4000
    for _ in range(ngen):
        s = gen_sig(r)
        strings.append(s)
        for _ in range(2):
            m = mutate(r, s)
            if m is not None:
                strings.append(m)
    # long random strings with foreign characters
    for _ in range(ngen // 10):
        n = r.choice([1, 2, 5, 20, 100, 255, 256, 300])
        chars = [chr(r.choice(ALPHA)) if r.random() < 0.9 else r.choice(FOREIGN) for _ in range(n)]
        strings.append("".join(chars).encode())
    # truncation aliases: a valid signature in which one, some or all characters are replaced by a code point that
    # becomes the original character under a lossy cast (`c as u8`: + k * 0x100; 7-bit mask: + 0x80; `as u16`: + 0x10000)
    def alias(ch, kind):
        c = ch + (r.choice([1, 2, 3, 0x20, 0xFF]) * 0x100 if kind == 0 else 0x80 if kind == 1 else 0x10000 * r.choice([1, 2, 0x10]))
        if 0xD800 <= c <= 0xDFFF or c > 0x10FFFF:
            c = ch + 0x100
        return chr(c)
    nalias = 0
    bases = [b"i", b"ai", b"(i)", b"a{sv}", b"(ii)", b"a(yu)", b"v", b"sa{sv}as"] + [gen_sig(r) for _ in range(ngen // 10)]
    for s in bases:
        if not s or len(s) > 60:
            continue
        for kind in (0, 1, 2):
            for mode in ("one", "some", "all"):
                idx = ([r.randrange(len(s))] if mode == "one" else
                       [i for i in range(len(s)) if r.random() < 0.5] or [0] if mode == "some" else list(range(len(s))))
                t = "".join(alias(c, kind) if i in idx else chr(c) for i, c in enumerate(s))
                strings.append(t.encode("utf-8"))
                nalias += 1
    ctx.count("explicit:truncation-alias-strings", nalias)
    uniq = list(dict.fromkeys(strings))
    lines = ["s " + hx(s) for s in uniq]
    chunks = [lines[i::vlib.NPROC] for i in range(vlib.NPROC)]
    chunks = [c for c in chunks if c]
    impl = run_tasks(exe, chunks)
    model = run_tasks(drv, chunks)
    for (rc_i, out_i, err_i), (rc_m, out_m, err_m), ch in zip(impl, model, chunks):
        if rc_i != 0 or len(out_i) != len(ch):
            ctx.tie_broken("harness c07 crashed or produced short output", err_i[-2000:])
            continue
        if rc_m != 0 or len(out_m) != len(ch):
            ctx.tie_broken("extracted model driver crashed", err_m[-2000:])
            continue
        for li, lm, inp in zip(out_i, out_m, ch):
            s = bytes.fromhex(inp[2:]) if inp[2:] != "-" else b""
            nontrivial = any(c in b"()a{}" for c in s)
            ctx.case(inp, nontrivial=nontrivial, sample={"input": s.decode("utf-8", "replace"), "impl": li.split(" ", 1)[1], "model": lm.split(" ", 1)[1]} if nontrivial and len(s) > 6 else None)
            d = parse_line(lm)
            ctx.count("explicit:valid" if d.get("V") == "ok" else "explicit:invalid")
            ctx.count("explicit:len<=8" if len(s) <= 8 else ("explicit:len<=64" if len(s) <= 64 else "explicit:len>64"))
            if li != lm:
                ctx.disagreements_checked += 1
                why = judge(li, lm)
                if why is None:
                    ctx.tie_broken("correspondence: harness and model lines differ on a point the property does not constrain",
                                   "impl: %s\nmodel: %s" % (li, lm))
                else:
                    ctx.violation(why, {"input_hex": hx(s), "input": s.decode("utf-8", "replace"), "impl": li, "spec_model": lm})
    ctx.count("corpus", ncorpus)

    # ---------------- driver cross-check: Coq's own evaluation of the model on a sample of the same strings
    import re
    flat = [(inp, lm) for (_, out_m, _), ch in zip(model, chunks) if len(out_m) == len(ch) for inp, lm in zip(ch, out_m)]
    def raw(inp):
        return bytes.fromhex(inp[2:]) if inp[2:] != "-" else b""
    # boundary shapes (nesting limits at every member position, mixed nests) of at most 80 bytes: all of them in the
    # thorough tier, a sample in the quick tier; plus a sample of the other strings; the empty string always
    bset = set(bnd)
    b_short = [x for x in flat if len(x[0]) <= 2 + 2 * 80 and raw(x[0]) in bset]
    others = [x for x in flat if len(x[0]) <= 2 + 2 * (80 if thorough else 40) and raw(x[0]) not in bset]
    picked = [x for x in flat if x[0] == "s -"]
    picked += b_short if thorough else r.sample(b_short, min(len(b_short), 60))
    picked += r.sample(others, min(len(others), 2000 if thorough else 120))
    picked = list(dict.fromkeys(picked))
    ctx.count("in_coq_vm_compute_boundary_shapes", sum(1 for x in picked if raw(x[0]) in bset))
    terms = []
    for inp, _ in picked:
        s = bytes.fromhex(inp[2:]) if inp[2:] != "-" else b""
        terms.append("Eval vm_compute in (let l := [%s] in (match parse_description l with Ok tys => (0, to_str_list tys) | Err => (1, []) | Panic => (2, []) | _ => (3, []) end, match validate_signature l with Ok _ => 0 | Err => 1 | Panic => 2 | _ => 3 end))."
                     % "; ".join(str(c) for c in s))
    v = ("From RB Require Import Base.Prelude Sig.Types Sig.Parser Sig.Validator.\nOpen Scope N_scope.\n" + "\n".join(terms) + "\n")
    out = vlib.coq_eval("c07_cross", v)
    blocks = re.split(r"^\s*= ", out, flags=re.M)[1:]
    if len(blocks) != len(picked):
        ctx.tie_broken("in-Coq evaluation printed %d results for %d terms" % (len(blocks), len(picked)), out[-1500:])
    else:
        code = {"ok": 0, "err": 1, "panic": 2}
        for blk, (inp, lm) in zip(blocks, picked):
            flat_blk = " ".join(blk.split())
            m = re.match(r"\(\s*(\d+), \[([0-9; ]*)\], (\d+)\)", flat_blk.replace("((", "(").replace("])", "]"))
            d = parse_line(lm)
            ctx.count("in_coq_vm_compute_cases")
            want = (code.get(d["P"], 3), d["R"] if d["P"] == "ok" else "-", code.get(d["V"], 3))
            got = None
            if m:
                bs = bytes(int(x) for x in m.group(2).replace(" ", "").split(";") if x)
                got = (int(m.group(1)), (hx(bs) if int(m.group(1)) == 0 else "-"), int(m.group(3)))
            if got != want:
                ctx.tie_broken("extracted driver and Coq's own vm_compute evaluation of the model differ",
                               "line: %s\ndriver: %s\ncoq: %s" % (inp, lm, flat_blk[:400]))

    # ---------------- stream 2: exhaustive enumeration
    maxlen = 6 if thorough else 5
    tasks = []
    for L in range(0, maxlen + 1):          # length 0: the empty signature
        if L <= 3:
            tasks.append(["enum %s %d -1" % (ALPHA.hex(), L)])
        else:
            for first in range(len(ALPHA)):
                tasks.append(["enum %s %d %d" % (ALPHA.hex(), L, first)])
    impl = run_tasks(exe, tasks)
    model = run_tasks(drv, tasks)
    total_enum = 0
    for (rc_i, out_i, err_i), (rc_m, out_m, err_m), t in zip(impl, model, tasks):
        if rc_i != 0 or not out_i or not out_i[-1].startswith("total"):
            ctx.tie_broken("harness c07 crashed during enumeration " + t[0], err_i[-2000:])
            continue
        if rc_m != 0 or not out_m or not out_m[-1].startswith("total"):
            ctx.tie_broken("model driver crashed during enumeration " + t[0], err_m[-2000:])
            continue
        ti, tm = out_i[-1].split(), out_m[-1].split()
        if ti != tm:
            ctx.tie_broken("enumeration counts differ", "%s vs %s" % (ti, tm))
            continue
        n, nt = int(ti[1]), int(ti[3])
        total_enum += n
        ctx.evaluations += n
        ctx.extra["enumerated_nontrivial"] = ctx.extra.get("enumerated_nontrivial", 0) + nt
        ctx.count("enum:total", n)
        ctx.count("enum:accepted_by_model", len(out_m) - 1)
        mi = {l.split(" ", 1)[0]: l for l in out_i[:-1]}
        mm = {l.split(" ", 1)[0]: l for l in out_m[:-1]}
        if mi != mm:
            for k in sorted(set(mi) | set(mm)):
                li = mi.get(k, "%s P:err V:err R:- S:-" % k)
                lm = mm.get(k, "%s P:err V:err R:- S:-" % k)
                if li != lm:
                    ctx.disagreements_checked += 1
                    why = judge(li, lm)
                    s = bytes.fromhex(k)
                    if why is None:
                        ctx.tie_broken("correspondence: enumeration lines differ", "impl: %s\nmodel: %s" % (li, lm))
                    else:
                        ctx.violation(why, {"input_hex": k, "input": s.decode("utf-8", "replace"), "impl": li, "spec_model": lm})
                    if len(ctx.violations) > 20:
                        break
    # distinct non-trivial: explicit ones are hashed in ctx.case; enumerated ones are distinct by construction
    ctx.extra["exhaustive_up_to_length"] = maxlen
    ctx.extra["enumerated_total"] = total_enum
    ctx.exhaustive = False
    # fold the enumerated non-trivial strings into the distinct count (they are pairwise distinct and
    # disjoint from nothing else we count twice: explicit strings of length <= maxlen over ALPHA are removed)
    dup = sum(1 for s in uniq if 1 <= len(s) <= maxlen and all(c in ALPHA for c in s) and any(c in b"()a{}" for c in s))
    ctx.extra["distinct_nontrivial_explicit"] = len(ctx.distinct)
    ctx.extra["distinct_nontrivial_overlap_removed"] = dup
    ctx.extra_distinct = max(0, ctx.extra.get("enumerated_nontrivial", 0) - dup)


def replay(ctx, body):
    data = body["data"]
    exe = vlib.harness_build(["c07"])["c07"]
    drv = vlib.ocaml_build("c07")
    line = "s " + data["input_hex"]
    li = run_tasks(exe, [[line]])[0][1][0]
    lm = run_tasks(drv, [[line]])[0][1][0]
    why = judge(li, lm)
    print("input:", data.get("input"))
    print("impl :", li)
    print("spec :", lm)
    if why:
        print("REPRODUCED:", why)
        return 1
    print("not reproduced (implementation agrees with the specification on this input)")
    return 0
