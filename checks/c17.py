"""C17 - connection setup: address resolution and auth follow the protocol and terminate.

Proof: coq/Properties/C17.v (all its theorems, listed with their axioms in the evidence: exact characterisation of the addresses that resolve and to what;
the handshake model conforms to the protocol for every uid, flag and scripted server, terminates without
panic, and accounts for every byte of the peer).
Tie: the extracted model (ocaml/c17) and the real crate (harness bin c17) run on the same inputs:
 * addresses through DBUS_SESSION_BUS_ADDRESS / get_session_bus_path() with file existence controlled by
   scratch files (the model's exists_ oracle is answered by os.path.exists on the same path);
 * std::str::from_utf8 against the model's utf8_valid (all 1- and 2-byte strings, boundary 3-/4-byte ones);
 * DuplexConn::connect_to_bus against scripted servers on unix sockets (path and abstract), under the
   process's uid and, by setuid in a child, several other uids.
Observables compared: Ok(path)/Ok(abstract)/Err/panic for addresses; success/failure and the exact bytes the
server received for handshakes (panic and a confirmed hang are observables); never error variants or timing.
"""
import glob
import hashlib
import os
import re
import shutil
import subprocess

import vlib

CRLF = b"\r\n"
DRIFT_HASH = "43cc88153eff"  # normalised text of the anchored functions when the model was written


# ------------------------------------------------------------------ helpers

def hx(b):
    return b.hex() if b else "-"


def unhx(s):
    return b"" if s == "-" else bytes.fromhex(s)


def run_proc(cmd, lines, cwd=None, env=None, timeout=900):
    e = dict(vlib.ENV)
    if env:
        e.update(env)
    p = subprocess.run(cmd, input="\n".join(lines) + "\n", stdout=subprocess.PIPE, stderr=subprocess.PIPE,
                       text=True, cwd=cwd, env=e, timeout=timeout)
    out = p.stdout.split("\n")
    if out and out[-1] == "":
        out.pop()
    return p.returncode, out, p.stderr


def anchored_hash():
    """heuristic drift detector (DESIGN.md section 3): hash of the anchored functions' text"""
    try:
        a = open(os.path.join(vlib.REPO, "rustbus/src/auth.rs")).read()
        c = open(os.path.join(vlib.REPO, "rustbus/src/connection.rs")).read()
        l = open(os.path.join(vlib.REPO, "rustbus/src/connection/ll_conn.rs")).read()
    except OSError:
        return "unreadable"
    m = re.search(r"fn parse_dbus_addr_str.*?\n}\n", c, re.S)
    g = re.search(r"pub fn get_session_bus_path.*?\n}\n", c, re.S)
    k = re.search(r"pub fn connect_to_bus.*?\n    }\n", l, re.S)
    txt = a + (m.group(0) if m else "") + (g.group(0) if g else "") + (k.group(0) if k else "")
    txt = re.sub(r"\s+", " ", re.sub(r"//[^\n]*", "", txt))
    return hashlib.blake2b(txt.encode(), digest_size=6).hexdigest()


def tie(ctx, what, detail=""):
    """ctx.tie_broken, at most 3 times per kind (further ones are counted in the evidence)"""
    seen = ctx.extra.setdefault("broken_ties", {})
    seen[what] = seen.get(what, 0) + 1
    if seen[what] <= 3:
        ctx.tie_broken(what, detail)


# ------------------------------------------------------------------ addresses

KEYS = [b"path", b"abstract", b"guid", b"runtime", b"dir", b"tmpdir", b"x y", "ключ".encode(), b"", b"Path", b"path ",
        b" path", b"abstract2", b"PATH", b"p", b"noncefile", b"argv1"]
TRANSPORTS = [b"tcp", b"unixexec", b"UNIX", b"", b"nonce-tcp", b"launchd", b"unix ", b" unix", b"unix2", b"autolaunch", b"systemd"]


class AddrWorld:
    """scratch directory with a known set of existing paths; the harness runs with it as cwd"""

    def __init__(self, base):
        self.dir = base
        os.makedirs(base, exist_ok=True)
        self.existing = []
        for name in ["sock", "a b", "ü", "e=q", "c:d", "semi;colon"]:
            p = os.path.join(base, name)
            open(p, "w").close()
            self.existing.append(name.encode())
        os.makedirs(os.path.join(base, "d"), exist_ok=True)
        self.existing.append(b"d")
        # a relative path of exactly 107 and one of 108 bytes that exist (sun_path boundary)
        seg = "L" * 50
        os.makedirs(os.path.join(base, seg, seg), exist_ok=True)
        for n in (107, 108, 120):
            leaf = "f" * (n - 102)
            p = os.path.join(base, seg, seg, leaf)
            open(p, "w").close()
            rel = ("%s/%s/%s" % (seg, seg, leaf)).encode()
            assert len(rel) == n
            self.existing.append(rel)
        self.existing += [os.path.join(base, "sock").encode(), b"/", b".", b"/tmp", b"..", b"./sock", b"d/../sock"]
        self.missing = [b"/nonexistent/bus", b"nope", os.path.join(base, "gone").encode(), b"sock2", b"", b"d/x", b"sock/",
                        b"/run/user/1000/bus", b"M" * 107, b"M" * 108, b"M" * 300]

    def exists(self, p):
        if p == b"" or b"\0" in p:
            return False
        return os.path.exists(os.path.join(self.dir.encode(), p))


def gen_value(r, w):
    k = r.random()
    if k < 0.4:
        return r.choice(w.existing)
    if k < 0.7:
        return r.choice(w.missing)
    if k < 0.8:
        return bytes(r.choice(b"abc/=:;% _-.\xc3\xa9") for _ in range(r.choice([0, 1, 3, 8, 20])))
    if k < 0.9:
        return b"/tmp/dbus-" + bytes(r.choice(b"ABCDEFabcdef0123456789") for _ in range(10))
    return r.choice([b"a" * 106, b"a" * 107, b"a" * 108, b"a" * 109, "ключ/значение".encode()])


def gen_addr(r, w):
    n = r.choice([1, 1, 2, 2, 3, 4, 6])
    one = r.randrange(n) if r.random() < 0.7 else None      # mostly exactly one socket key, anywhere in the list
    pairs = []
    for i in range(n):
        k = r.random()
        if one is not None:
            key = r.choice([b"path", b"abstract"]) if i == one else r.choice([x for x in KEYS if x not in (b"path", b"abstract")])
        else:
            key = b"path" if k < 0.3 else (b"abstract" if k < 0.55 else r.choice(KEYS))
        pairs.append(key + b"=" + gen_value(r, w).replace(b",", b""))
    return b"unix:" + b",".join(pairs)


def mutate_addr(r, w, s):
    s = bytearray(s)
    k = r.randrange(12)
    if k == 0 and s:
        del s[r.randrange(len(s))]
    elif k == 1:
        s.insert(r.randrange(len(s) + 1), r.choice(b",=:;% \t"))
    elif k == 2 and s:
        s[r.randrange(len(s))] = r.choice(b",=:;ax/")
    elif k == 3:                                   # another transport
        i = s.find(b":")
        s = bytearray(r.choice(TRANSPORTS)) + s[i:] if i >= 0 else s
    elif k == 4:                                   # no ':' at all
        s = s.replace(b":", b"", 1) if r.random() < 0.5 else s.replace(b":", b"")
    elif k == 5:                                   # a pair without '='
        parts = bytes(s).split(b",")
        parts.insert(r.randrange(len(parts) + 1), r.choice([b"guid", b"path", b"abstract", b"", b"junk junk", b"path/x"]))
        s = bytearray(b",".join(parts))
    elif k == 6:                                   # repeat / reorder pairs
        head, _, rest = bytes(s).partition(b":")
        parts = rest.split(b",")
        if r.random() < 0.5:
            parts.append(r.choice(parts))
        r.shuffle(parts)
        s = bytearray(head + b":" + b",".join(parts))
    elif k == 7:
        s = s[: r.randrange(len(s) + 1)]
    elif k == 8:                                   # a second address after ';'
        s = s + b";" + gen_addr(r, w)
    elif k == 9:                                   # not UTF-8
        s.insert(r.randrange(len(s) + 1), r.choice([0xff, 0xc3, 0x80, 0xed]))
    elif k == 10:
        s = bytearray(b" ") + s if r.random() < 0.5 else s + bytearray(b" ")
    else:                                          # empty value for a socket key
        s = bytearray(bytes(s).replace(b"path=", b"path=,x=", 1).replace(b"abstract=", b"abstract=,y=", 1))
    return bytes(s).replace(b"\0", b"")


FIXED_ADDRS = [b"", b":", b"unix", b"unix:", b"unix:,", b"unix:=", b"unix:path", b"unix:path=", b"unix:abstract=", b"unix:=path",
               b"unix:path=sock", b"unix:path=sock,guid=1", b"unix:guid=1,path=sock", b"unix:guid=1,path=sock,abstract=k",
               b"unix:abstract=k,path=sock", b"unix:path=nope,abstract=k", b"unix:abstract=k", b"unix:abstract=k,garbage",
               b"unix:garbage,abstract=k", b"unix:path=sock,garbage", b"unix:abstract=a=b:c", b"unix:path=e=q", b"unix:path=c:d",
               b"unix:path=semi;colon", b"unix:abstract=a;tcp:host=h", b"unix:path=sock;unix:path=sock", b"unix:path=a b",
               "unix:path=ü".encode(), b"unix:path=a%20b", b"unix:path= sock", b"unix: path=sock", b"unix:Path=sock", b"UNIX:path=sock",
               b"unix::path=sock", b"tcp:host=localhost,port=1", b"unixexec:path=sock", b":path=sock", b"unix:path=sock,", b"unix:,path=sock",
               b"unix:x=,path=sock", b"unix:=v,path=sock", b"unix:path=/", b"unix:path=.", b"unix:path=d", b"unix:path=sock/",
               b"unix:path=/run/dbus/system_bus_socket", b"unix:abstract=" + b"a" * 107, b"unix:abstract=" + b"a" * 108,
               b"unix:tmpdir=/tmp", b"unix:dir=/tmp", b"unix:runtime=yes", b"autolaunch:", b"unix:path=sock\xff", b"\xffunix:path=sock"]


def addr_expected(w, model_line):
    """model result for this world: the driver evaluated both oracle answers and names the queried path"""
    parts = dict(p.split(":", 1) for p in model_line.split(" ")[1:])
    q = parts["Q"]
    if q == "none":
        return parts["T"], None
    return (parts["T"] if w.exists(unhx(q)) else parts["F"]), unhx(q)


def strict_supported(addr):
    """the property's 'address of the supported kind' (independent of the model): UTF-8, no ';', "unix:" followed
    by comma-separated key=value pairs, exactly one of them with key path|abstract, that value not empty.
    Returns (is_path, value) or None."""
    try:
        addr.decode("utf-8")
    except UnicodeDecodeError:
        return None
    if b";" in addr or not addr.startswith(b"unix:"):
        return None
    socks = []
    for pair in addr[5:].split(b","):
        if b"=" not in pair:
            return None
        k, v = pair.split(b"=", 1)
        if k in (b"path", b"abstract"):
            socks.append((k == b"path", v))
    if len(socks) != 1 or socks[0][1] == b"":
        return None
    return socks[0]


def judge_addr(w, addr, impl, model):
    """None when the implementation's own output satisfies the property text on this address"""
    if impl == "PANIC":
        return "address resolution panicked"
    sup = strict_supported(addr) if addr is not None else None
    if sup is not None:
        is_path, v = sup
        if is_path:
            want = "P:" + hx(v) if (w.exists(v) and len(v) < 108) else "E"
        else:
            want = "A:" + hx(v) if len(v) < 108 else "E"
        if impl != want:
            return "a supported unix address does not resolve to exactly its path/abstract socket (want %s)" % want
        return None
    if impl != "E":
        return "a string that is not an address of the supported kind resolves instead of yielding an error"
    return None


# ------------------------------------------------------------------ handshakes

def uid_hex(uid):
    return "".join("%02x" % ord(c) for c in str(uid)).encode()


def expected_lines(uid, fd):
    ls = [b"\0", b"AUTH EXTERNAL " + uid_hex(uid) + CRLF]
    if fd:
        ls.append(b"NEGOTIATE_UNIX_FD" + CRLF)
    ls.append(b"BEGIN" + CRLF)
    return ls


RUN = re.compile(rb"(.)\1{15,}", re.S)


def tok(c):
    """a chunk as '<hex>' / '<hh>*<n>' segments joined by '+' (long runs of one byte stay short)"""
    out, i = [], 0
    for m in RUN.finditer(c):
        if m.start() > i:
            out.append(c[i:m.start()].hex())
        out.append("%02x*%d" % (c[m.start()], m.end() - m.start()))
        i = m.end()
    if i < len(c):
        out.append(c[i:].hex())
    return "+".join(out)


class Script:
    """greeting + replies; each step = (chunks, closes); optional harness-only last step: 'x<k>' (read k more
    client bytes, close) or 'g' (write CR-LF-free bytes until the client closes). lock = indices of the steps
    whose chunks are delivered in lockstep (each chunk exactly one read of the client)"""

    def __init__(self, steps, fd, kind="p", probe=False, xk=None, tag="", lock=(), garbage=False):
        self.steps = steps
        self.fd = fd
        self.kind = kind
        self.probe = probe
        self.xk = xk          # read exactly k more client bytes, then close (harness only)
        self.tag = tag
        self.lock = set(lock)
        self.garbage = garbage

    def text(self, for_model=False):
        cache = self.__dict__.setdefault("_text", {})
        if for_model not in cache:
            cache[for_model] = self._text_uncached(for_model)
        return cache[for_model]

    def _text_uncached(self, for_model):
        out = []
        for i, (chunks, closes) in enumerate(self.steps):
            out.append(",".join([("c" if closes else ("l" if i in self.lock else "k"))] + [tok(c) for c in chunks if c]))
        if self.xk is not None:
            out.append("c" if for_model else "x%d" % self.xk)
        if self.garbage:
            out.append("k,78*40000/512" if for_model else "g")
        return ";".join(out)

    def harness_line(self):
        return "h %d %s %s%s" % (1 if self.fd else 0, self.kind, self.text(), " m" if self.probe else "")

    def model_line(self, uid):
        return "h %d %d %s" % (uid, 1 if self.fd else 0, self.text(True))

    def deterministic(self):
        """the observable result cannot depend on how the kernel groups the server's writes into reads:
        the chunk that completes the first CR LF of an exchange is the last one available, and bytes after
        that CR LF travel in the same write within one 512-byte read"""
        if self.xk is not None:
            return False
        g_chunks, g_closes = self.steps[0]
        if g_closes:
            return not any(g_chunks)
        avail = [c for c in g_chunks if c]
        exact = True        # every chunk available so far is delivered as its own read
        for i, (chunks, closes) in list(enumerate(self.steps))[1:(3 if self.fd else 2)]:   # the exchanges in which the client reads
            mine = [c for c in chunks if c]
            # lockstep makes chunk = read only for chunks that fill the 512-byte read buffer: after a shorter one
            # the client's read() may still pick up the next chunk in the same call (seen about once in 3000 runs)
            exact = (exact or not avail) and i in self.lock and all(len(c) == 512 for c in mine[:-1])
            avail = avail + mine
            cum = b""
            hit = None
            for j, c in enumerate(avail):
                cum += c
                if CRLF in cum:
                    hit = j
                    break
            if hit is None:
                if not closes:
                    return False          # would wait for more: not generated
            elif not exact:
                if hit != len(avail) - 1:
                    return False
                trailing = len(cum) - (cum.index(CRLF) + 2)
                if trailing > 0 and len(cum) > 512:
                    return False
                # the 16 KiB limit is tested before each read: between these lengths the verdict depends on how
                # the kernel groups the bytes into reads
                if 16384 <= cum.index(CRLF) <= 16384 + 510:
                    return False
            avail = []
            exact = True
            if closes:
                break
        return True

    def first_lines(self):
        """[line1, line2]: the first CR LF terminated line of what the server sends for AUTH (incl. greeting)
        and for NEGOTIATE_UNIX_FD; None when there is no complete line"""
        res = []
        pre = b"".join(self.steps[0][0])
        for chunks, _ in self.steps[1:3]:
            data = pre + b"".join(chunks)
            pre = b""
            res.append(data[: data.index(CRLF)] if CRLF in data else None)
        while len(res) < 2:
            res.append(None)
        return res


def is_utf8(b):
    try:
        b.decode("utf-8")
        return True
    except UnicodeDecodeError:
        return False


SLACK = 4 << 20      # what the kernel may buffer on behalf of a client that has stopped reading


def judge_hs(uid, sc, cls, S, M, W=0):
    """the property text evaluated on the implementation's own output; None = satisfied"""
    if cls == "panic":
        return "connect_to_bus panicked"
    lines = expected_lines(uid, sc.fd)
    prefixes = [b"".join(lines[:i]) for i in range(len(lines) + 1)]
    if sc.xk is None:
        if S not in prefixes:
            return "client bytes are not whole lines of NUL, AUTH EXTERNAL <hex uid>, [NEGOTIATE_UNIX_FD], BEGIN in order"
    elif not any(p.startswith(S) for p in prefixes):
        return "client bytes are not a prefix of the expected conversation"
    if cls == "hang":
        if sc.garbage:
            return "connect_to_bus did not return although the server only streams bytes without a line ending (%d written)" % W
        return "connect_to_bus did not return within the deadline although the server answered or closed"
    if sc.garbage and W > 2 * (16384 + 512) + SLACK:
        return "the handshake kept reading far beyond the line limit (%d bytes written by the server)" % W
    l1, l2 = sc.first_lines()
    det = sc.deterministic()
    all_server = b"".join(b"".join(ch) for ch, _ in sc.steps)

    def ok_line(l, word):
        # the reply accepts iff its first space-separated word is exactly the command (OKAY, OKfoo, AGREE_UNIX_FDX do
        # not). The text does not say that an answer must be UTF-8 to count; the model (like the code) turns a
        # non-UTF-8 line into an error - a difference there is reported as a broken tie, not as a violation
        return l is not None and l.split(b" ", 1)[0] == word
    if det:
        acc1 = ok_line(l1, b"OK")
        acc2 = ok_line(l2, b"AGREE_UNIX_FD")
    else:   # over-approximation: some line the server sent could have been taken as the answer
        acc1 = any(ok_line(seg, b"OK") for seg in all_server.split(CRLF)[:-1])
        acc2 = any(ok_line(seg, b"AGREE_UNIX_FD") for seg in all_server.split(CRLF)[:-1])
    need = acc1 and (acc2 or not sc.fd)
    begin = b"BEGIN" + CRLF
    if cls == "ok" and not need:
        return "success reported without an OK (and AGREE_UNIX_FD) answer"
    if S.endswith(begin) and len(S) > 1 and not need:
        return "BEGIN sent although a reply was not accepting"
    if sc.fd and b"NEGOTIATE_UNIX_FD" in S and not acc1:
        return "NEGOTIATE_UNIX_FD sent although AUTH was not accepted"
    if cls == "ok" and S != prefixes[-1] and sc.xk is None:
        return "success reported without the complete client conversation on the wire"
    if cls == "ok" and sc.probe and M != "ok":
        return "the message the server sent after BEGIN did not arrive intact (%s)" % M
    return None


A1 = [b"OK 1234deadbeef", b"OK", b"OK ", b"OK  1234", "OK гуид".encode(), b"OK a\rb", b"OK x\ny", b"OK OK", b"OK\x201234 5678"]
R1 = [b"OKAY", b"OKfoo", b"OK\t1234", b"OK\t", b"OK\n", b"OK\r", b"OK1234", b"OK_", b"OK,1", b"Ok 1", b"oK", b"OK\xc2\xa01",
      b"REJECTED EXTERNAL", b"REJECTED", b"ERROR", b'ERROR "x"', b"DATA 1234", b"ok 123", b" OK", b"", b"O", b"garbage \x01\x02",
      b"AGREE_UNIX_FD", b"K", b"a\rb", b"a\nb", b"\r", b"\n", b"REJECTED OK", b"0K",
      # valid UTF-8 with a multi-byte character across the end of the command word (byte 2) and right behind it
      "\u20ac".encode(), "O\u00e9".encode(), "\u00e9\u00e9\u00e9".encode(), "OK\u00e9".encode(), "O\U0001F600".encode(),
      "\u00e9K 1".encode(), "OK\u20ac 1".encode()]
N1 = [b"\xff\xfe", b"OK \xff", b"OK \xc3", b"\xed\xa0\x80", b"OK \xf4\x90\x80\x80", b"\xc0\xaf"]
A2 = [b"AGREE_UNIX_FD", b"AGREE_UNIX_FD extra", b"AGREE_UNIX_FD ", b"AGREE_UNIX_FD  x"]
R2 = [b"AGREE_UNIX_FDX", b"AGREE_UNIX_FDS extra", b"AGREE_UNIX_FD\textra", b"AGREE_UNIX_FD_", b"AGREE", b"Agree_unix_fd",
      b"ERROR", b"AGREE_UNIX_F", b"agree_unix_fd", b"OK 123", b"OK", b"", b"REJECTED", b" AGREE_UNIX_FD", b"a\rb",
      # a multi-byte character across byte 13 (the end of the word), and right behind it
      "AGREE_UNIX_F\u00e9".encode(), "AGREE_UNIX_\u20ac".encode(), "AGREE_UNIX_FD\u00e9".encode(), "\u00e9GREE_UNIX_FD".encode(),
      "AGREE_UNIX_F\U0001F600 x".encode()]
N2 = [b"\xff\xfe", b"AGREE_UNIX_FD \xff"]
OKL = b"OK 1234deadbeef" + CRLF
AGL = b"AGREE_UNIX_FD" + CRLF
RJL = b"REJECTED EXTERNAL" + CRLF
K = ([], False)          # a step without bytes that keeps the socket open


def cuts(r, data, k):
    pos = sorted(r.sample(range(1, len(data)), min(k - 1, len(data) - 1)))
    out, last = [], 0
    for p in pos:
        out.append(data[last:p])
        last = p
    out.append(data[last:])
    return out


def gen_scripts(r, thorough, uid=0):
    S = []

    def add(steps, fd, **kw):
        kind = kw.pop("kind", "p" if len(S) % 3 else "a")
        S.append(Script(steps, fd, kind=kind, **kw))

    # every reply class per step, one chunk
    for l in A1 + R1 + N1:
        for fd in (False, True):
            add([K, ([l + CRLF], False), ([AGL], False), K], fd, tag="class1")
    for l in A2 + R2 + N2:
        add([K, ([OKL], False), ([l + CRLF], False), K], True, tag="class2")
    # long lines around the 512-byte read buffer (CR LF falling on the boundary)
    for n in (509, 510, 511, 512, 513, 600, 1023, 1024, 1500):
        for pre in (b"OK ", b"XX "):
            add([K, ([pre + b"x" * (n - 3) + CRLF], False), ([AGL], False), K], n % 2 == 0, tag="long")
    # the 16 KiB line limit: lines just under / at / over it, delivered in lockstep (every chunk one read: exact
    # boundary), byte-wise at the end, and as one large write; and servers that never end their line
    def pieces(data, k):
        return [data[i:i + k] for i in range(0, len(data), k)]
    for L in (16383, 16384, 16385, 16384 + 510, 16384 + 511, 16384 + 512, 20000, 100000):
        for pre, fd in ((b"OK ", False), (b"OK ", True), (b"XX ", False)):
            line = pre + b"x" * (L - 3)
            add([K, (pieces(line, 512) + [CRLF], False), ([AGL], False), K], fd, lock=[1], tag="limit")
            add([K, (pieces(line + CRLF, 512), False), ([AGL], False), K], fd, lock=[1], tag="limit")
            add([K, ([line + CRLF], False), ([AGL], False), K], fd, tag="limit")
    for L in (16382, 16383, 16384, 16385):
        line = b"OK " + b"x" * (L - 3)
        add([K, (pieces(line[:15872], 512) + pieces(line[15872:] + CRLF, 1), False), ([AGL], False), K], L % 2 == 0, lock=[1], tag="limit")
        agree = b"AGREE_UNIX_FD " + b"y" * (L - 14)
        add([K, ([OKL], False), (pieces(agree[:15872], 512) + pieces(agree[15872:] + CRLF, 1), False), K], True, lock=[2], tag="limit")
        add([K, ([OKL], False), (pieces(agree, 512) + [CRLF], False), K], True, lock=[2], tag="limit")
    if thorough:
        for L in (16383, 16384):
            add([K, (pieces(b"OK " + b"x" * (L - 3) + CRLF, 1), False), K], False, lock=[1], tag="limit")
    for fd in (False, True):
        add([K], fd, garbage=True, tag="garbage")
    add([K, ([OKL], False)], True, garbage=True, tag="garbage")
    add([K, ([b"x" * 16385], True)], False, tag="limit")
    add([K, ([b"x" * 16384], True)], False, tag="limit")
    # every 2-cut of each reply line, exhaustively
    for i in range(1, len(OKL)):
        add([K, ([OKL[:i], OKL[i:]], False), ([AGL], False), K], i % 2 == 0, tag="cut2")
    for i in range(1, len(AGL)):
        add([K, ([OKL], False), ([AGL[:i], AGL[i:]], False), K], True, tag="cut2")
    for i in range(1, len(RJL)):
        add([K, ([RJL[:i], RJL[i:]], False)], i % 2 == 0, tag="cut2")
    for l in (b"OK\nx", b"OK\rx", b"\r", b"\n", b"a\r\rb", b"x\n"):
        data = l + CRLF
        for i in range(1, len(data)):
            add([K, ([data[:i], data[i:]], False), ([AGL], False), K], i % 2 == 1, tag="cut2")
    # byte by byte, random k-cuts
    add([K, ([bytes([b]) for b in OKL], False), ([bytes([b]) for b in AGL], False), K], True, tag="bytewise")
    add([K, ([bytes([b]) for b in RJL], False)], False, tag="bytewise")
    for _ in range(120 if thorough else 40):
        k = r.choice([3, 4, 5, 6, 8])
        l1 = r.choice(A1 + A1 + R1 + N1) + CRLF
        l2 = r.choice(A2 + A2 + R2 + N2) + CRLF
        add([K, (cuts(r, l1, k) if len(l1) > k else [l1], False), (cuts(r, l2, k), False), K], r.random() < 0.6, tag="cutk")
    # close after k bytes of the reply, for every k (k = whole line: the next write fails)
    for fd in (False, True):
        for k in range(0, len(OKL) + 1):
            add([K, ([OKL[:k]], True)], fd, tag="close1")
    for k in range(0, len(AGL) + 1):
        add([K, ([OKL], False), ([AGL[:k]], True)], True, tag="close2")
    for k in range(0, len(RJL) + 1, 3):
        add([K, ([RJL[:k]], True)], False, tag="close1")
    add([([], True)], False, tag="close0")
    add([([], True)], True, tag="close0")
    add([K, ([OKL], False), ([AGL], False), ([], True)], True, tag="close_after_begin")
    add([K, ([OKL], False), ([], True)], False, tag="close_after_begin")
    # close after k bytes read from the client, for every k of the expected conversation (timing decides how
    # far the client got: judged by the property predicate only)
    first = b"".join(expected_lines(uid, True)[:2])      # NUL + AUTH line: all the client sends unasked
    for k in range(0, len(first) + 1):
        add([K], k % 2 == 0, xk=k, tag="closeread")
    for k in range(0, len(b"NEGOTIATE_UNIX_FD\r\n")):
        add([K, ([OKL], False)], True, xk=k, tag="closeread")
    for k in range(0, len(b"BEGIN\r\n")):
        add([K, ([OKL], False), ([AGL], False)], True, xk=k, tag="closeread")
        add([K, ([OKL], False)], False, xk=k, tag="closeread")
    # two lines / trailing bytes in the chunk that completes the line (dropped by read_message)
    add([K, ([OKL + AGL], False), ([], True)], True, tag="pipelined")
    add([K, ([OKL + AGL], False), ([AGL], False), K], True, tag="pipelined")
    add([K, ([OKL + b"garbage"], False), ([AGL + b"l\x01\x00\x01"], False), K], True, tag="pipelined")
    add([K, ([OKL[:5], OKL[5:] + RJL], False), K], False, tag="pipelined")
    add([K, ([RJL + OKL], False)], False, tag="pipelined")
    # unsolicited bytes before AUTH
    add([([OKL], False), K, ([AGL], False), K], True, tag="greeting")
    add([([b"hello "], False), ([OKL], False), K], False, tag="greeting")
    add([([b"\r"], False), ([b"\nOK" + CRLF], False), K], False, tag="greeting")
    add([([RJL], False), ([], True)], False, tag="greeting")
    # the message after BEGIN arrives intact
    for fd in (False, True):
        add([K, ([OKL], False), ([AGL], False)] if fd else [K, ([OKL], False)], fd, probe=True, tag="probe")
        add([K, ([OKL[:4], OKL[4:]], False), ([AGL[:1], AGL[1:]], False)] if fd else [K, (cuts(r, OKL, 4), False)], fd, probe=True, tag="probe")
    # random compositions
    for _ in range(400 if thorough else 110):
        fd = r.random() < 0.6
        steps = [K]
        for word_ok, word_bad, word_n in ((A1, R1, N1), (A2, R2, N2)):
            x = r.random()
            l = r.choice(word_ok) if x < 0.55 else (r.choice(word_bad) if x < 0.85 else r.choice(word_n))
            data = l + CRLF
            y = r.random()
            closes = False
            if y < 0.2:
                data = data[: r.randrange(len(data) + 1)]
                closes = True
            elif y < 0.3:
                closes = True
            chunks = cuts(r, data, r.choice([1, 1, 2, 3, 5])) if len(data) > 5 else [data]
            steps.append((chunks, closes))
            if closes:
                break
        else:
            steps.append(K)
        add(steps, fd, tag="random")
    return S


def parse_hs(line):
    parts = line.split(" ")
    d = {"cls": parts[0]}
    for p in parts[1:]:
        k, v = p.split(":", 1)
        d[k] = v
    return d


# ------------------------------------------------------------------ utf-8

def utf8_cases(thorough):
    out = [bytes([a]) for a in range(256)]
    out += [bytes([a, b]) for a in range(256) for b in range(256)]
    edge2 = [0x7f, 0x80, 0x8f, 0x90, 0x9f, 0xa0, 0xbf, 0xc0]
    edge3 = [0x00, 0x7f, 0x80, 0xbf, 0xc0, 0xff]
    for lead in (0xe0, 0xe1, 0xec, 0xed, 0xee, 0xef):
        for b1 in (range(256) if thorough else edge2):
            for b2 in edge3:
                out.append(bytes([lead, b1, b2]))
                out.append(bytes([lead, b1, b2, 0x41]))
    for lead in (0xf0, 0xf1, 0xf3, 0xf4, 0xf5, 0xf7, 0xf8):
        for b1 in (range(256) if thorough else edge2):
            for b2 in edge3:
                for b3 in edge3:
                    out.append(bytes([lead, b1, b2, b3]))
        out.append(bytes([lead]))
        out.append(bytes([lead, 0x90]))
        out.append(bytes([lead, 0x90, 0x80]))
    out += ["aé€😀".encode(), "aé€😀".encode()[:-1], b"\xef\xbb\xbf", b"\xef\xbf\xbe", b"\xf4\x8f\xbf\xbf", b"\xf4\x90\x80\x80"]
    return list(dict.fromkeys(out))


# ------------------------------------------------------------------ run

def run(ctx):
    thorough = ctx.tier == "thorough"
    drift = anchored_hash()
    if drift != DRIFT_HASH:
        ctx.extra["source_drift"] = "anchored functions changed (%s, recorded %s): generators run at thorough size" % (drift, DRIFT_HASH)
        thorough = True
    ctx.rule = ("addresses: fixed boundary list, grammar-generated unix addresses (keys path/abstract/other in any order, values among "
                "existing and missing scratch paths, empty, with '=' ':' ';', non-ASCII, 106..109 and 300 bytes) and their single mutations "
                "(missing ':', other transports, pairs without '=', empty values, repeated/reordered pairs, truncation, ';' lists, non-UTF-8 "
                "bytes), resolved through DBUS_SESSION_BUS_ADDRESS and judged by an independent reading of the grammar (no ';', every piece key=value, exactly one path|abstract key, non-empty value); non-trivial = starts with 'unix:' and has a path/abstract key. "
                "utf-8: all 1- and 2-byte strings and boundary 3-/4-byte sequences; non-trivial = contains a byte >= 0x80. "
                "handshakes: scripted servers - every reply class per step (OK, OK <guid>, OK followed by two spaces / a tab / nothing, OKAY, OKfoo, lower case, REJECTED, ERROR, DATA, AGREE_UNIX_FD[ extra], AGREE_UNIX_FDX, garbage, non-UTF-8, empty, bare "
                "CR/LF, lines of 509..1500 bytes), lines of 16382..16385, 16894..16896, 20000 and 100000 bytes around the 16 KiB limit (delivered in lockstep - the server writes a chunk only after SIOCOUTQ shows the previous one was read; for 512-byte chunks chunk = read and the boundary is exact -, byte-wise at the end, and as one large write; whenever the read grouping is up to the kernel (short chunks, one large write) lines of 16384..16894 bytes are judged by the predicate only), servers that stream bytes without a line ending until the client closes (result class compared strictly; the bytes the server got rid of are only required to stay below 2*(16384+512) plus 4 MiB of socket-buffer slack, the kernel buffers on behalf of the client), every 2-cut of each reply line, byte-wise and random k-cuts, close after k reply bytes for "
                "every k, close after k client bytes for every k, two lines per chunk, unsolicited greeting, message after BEGIN, random "
                "compositions; child processes with the default SIGPIPE disposition against servers closing at accept / after 1 / 5 client bytes; on path and abstract sockets; under the own uid and setuid children; non-trivial = the server sends at least one byte; "
                "distinct = distinct (uid, flag, script) / distinct byte strings")
    ctx.trusted = ["Coq 8.16.1 kernel (coqc), no native_compute", "extraction with ExtrOcamlBasic only, ocamlfind ocamlopt 4.13.1",
                   "ocaml/c17/driver.ml and harness/src/bin/c17.rs (I/O wrappers; the harness contains the scripted server)",
                   "Conn/AddrProofs.v (addr_grammar, unix_address, pair_ok) and Conn/AuthProofs.v (first_line, reply, conforming, "
                   "conversation, decimal_of) are my reading of the property text",
                   "Conn/AddrBase.v utf8_valid stands for std::str::from_utf8 (cross-checked here, not proved)"]
    ctx.assumptions = ["AF_UNIX stream socket: a blocking write of a handshake line is all-or-error; read returns 1..512 bytes of what the peer "
                       "wrote, 0 after the peer closed; writes fail once the peer has shut down (modelled in Conn/Auth.v sock_write/sock_read)",
                       "the environment variable and paths are byte strings without NUL; PathBuf::exists = a successful stat()",
                       "sockaddr_un.sun_path has 108 bytes (Linux); usize is 64 bit",
                       "connect(2) itself succeeds (a listener exists); a server that neither answers nor closes leaves the client waiting in read() - "
                       "connect_to_bus has no timeout (model result Blocked, theorem C17_auth_result)"]
    ctx.try_proof()
    exe = vlib.harness_build(["c17"])["c17"]
    vlib.coq_make(["Conn/Auth.vo", "Conn/Addr.vo", "Conn/AuthExamples.vo"])   # the examples must keep computing
    drv = vlib.ocaml_build("c17")

    work = os.path.join(vlib.SCRATCH, "c17_%d" % os.getpid())
    shutil.rmtree(work, ignore_errors=True)
    os.makedirs(work)
    os.chmod(work, 0o777)
    try:
        _run(ctx, thorough, exe, drv, work)
    finally:
        shutil.rmtree(work, ignore_errors=True)


def corpus_lines():
    out = []
    for f in sorted(glob.glob(os.path.join(vlib.VERIF, "corpus", "C17", "*.case"))):
        for line in open(f):
            line = line.strip()
            if line and not line.startswith("#"):
                out.append(line)
    return out


def untok(s):
    body, _, piece = s.partition("/")
    out = b""
    for seg in body.split("+"):
        if "*" in seg:
            b, n = seg.split("*")
            out += bytes([int(b, 16)]) * int(n)
        else:
            out += bytes.fromhex(seg)
    if piece:
        k = int(piece)
        return [out[i:i + k] for i in range(0, len(out), k)]
    return [out]


def script_from_line(line):
    parts = line.split(" ")
    steps, lock = [], []
    xk, garbage = None, False
    for st in parts[3].split(";"):
        items = st.split(",")
        if items[0].startswith("x"):
            xk = int(items[0][1:])
            continue
        if items[0] == "g":
            garbage = True
            continue
        if items[0] == "l":
            lock.append(len(steps))
        steps.append(([c for it in items[1:] for c in untok(it)], items[0] == "c"))
    return Script(steps, parts[1] == "1", kind=parts[2], probe=(len(parts) > 4), xk=xk, tag="corpus", lock=lock, garbage=garbage)


def _run(ctx, thorough, exe, drv, work):
    env = {"VERIF_SCRATCH": work}
    corpus = corpus_lines()
    ctx.count("corpus", len(corpus))

    # ---------------------------------------------------------------- addresses
    w = AddrWorld(os.path.join(work, "addr"))
    r = ctx.sub_rng("addr")
    addrs = [unhx(l.split(" ")[1]) for l in corpus if l.startswith("a ") and l.split(" ")[1] != "none"] + list(FIXED_ADDRS)
    for p in w.existing + w.missing:
        addrs.append(b"unix:path=" + p)
        addrs.append(b"unix:guid=00ff,path=" + p + b",x=y")
        addrs.append(b"unix:abstract=" + p)
    n = 12000 if thorough else 1000
    for _ in range(n):
        a = gen_addr(r, w)
        addrs.append(a)
        addrs.append(mutate_addr(r, w, a))
        if r.random() < 0.3:
            addrs.append(mutate_addr(r, w, mutate_addr(r, w, a)))
    addrs = [a for a in dict.fromkeys(addrs) if b"\0" not in a and b"\n" not in a]
    lines = ["a none"] + ["a " + hx(a) for a in addrs]
    rc_i, out_i, err_i = run_proc([exe], lines, cwd=w.dir, env=env)
    rc_m, out_m, err_m = run_proc([drv], lines)
    if rc_i != 0 or len(out_i) != len(lines) + 1 or not out_i[0].startswith("UID "):
        tie(ctx, "harness c17 crashed or produced short output on the address stream", (err_i or "")[-2000:] + "\n".join(out_i[-3:]))
    elif rc_m != 0 or len(out_m) != len(lines):
        tie(ctx, "extracted model driver crashed on the address stream", (err_m or "")[-2000:])
    else:
        for inp, li, lm in zip(lines, out_i[1:], out_m):
            h = inp[2:]
            addr = None if h == "none" else unhx(h)
            impl = li.split(" ", 1)[1]
            model, q = addr_expected(w, lm)
            nontrivial = addr is not None and addr.startswith(b"unix:") and (b"path=" in addr or b"abstract=" in addr)
            ctx.case(("a", h), nontrivial=nontrivial,
                     sample={"address": addr.decode("utf-8", "replace"), "impl": impl, "model": model} if nontrivial and len(ctx.samples) < 3 and b"," in addr else None)
            ctx.count("addr:" + ("path" if model.startswith("P:") else "abstract" if model.startswith("A:") else "error"))
            if addr is not None and strict_supported(addr) is not None:
                ctx.count("addr:in_grammar")
            data = {"kind": "addr", "line": inp, "address": (addr or b"").decode("utf-8", "replace"), "impl": impl, "model": model,
                    "queried_path_exists": (w.exists(q) if q is not None else None)}
            why = judge_addr(w, addr, impl, model)
            if why:
                ctx.disagreements_checked += 1
                ctx.violation(why, data)
            elif impl != model:
                ctx.disagreements_checked += 1
                tie(ctx, "correspondence: address resolution agrees with the property predicate but differs from the model", str(data))
    # get_system_bus_path: the path constant is observable either way (Ok(path) or PathDoesNotExist(path))
    rc_i, out_i, _ = run_proc([exe], ["y"], cwd=w.dir, env=env)
    sysbus = b"/run/dbus/system_bus_socket"          # C17_system_bus_path
    want = ("P:" if os.path.exists(sysbus.decode()) else "N:") + hx(sysbus)
    ctx.case(("y",), nontrivial=False)
    if rc_i != 0 or len(out_i) != 2 or out_i[1] != want:
        ctx.disagreements_checked += 1
        if len(out_i) == 2 and out_i[1] == "PANIC":
            ctx.violation("get_system_bus_path panicked", {"kind": "sys", "line": "y", "impl": out_i})
        else:
            tie(ctx, "correspondence: get_system_bus_path does not use /run/dbus/system_bus_socket as the model does", "impl %s want %s" % (out_i, want))

    # ---------------------------------------------------------------- utf-8 (the model's stand-in for from_utf8)
    ucases = utf8_cases(thorough)
    lines = ["u " + hx(c) for c in ucases]
    rc_i, out_i, err_i = run_proc([exe], lines, cwd=w.dir, env=env)
    rc_m, out_m, err_m = run_proc([drv], lines)
    if rc_i != 0 or len(out_i) != len(lines) + 1 or rc_m != 0 or len(out_m) != len(lines):
        tie(ctx, "harness or model driver crashed on the utf-8 stream", (err_i or "")[-1000:] + (err_m or "")[-1000:])
    else:
        bad = [(c, a, b) for c, a, b in zip(ucases, out_i[1:], out_m) if a != b]
        ctx.evaluations += len(ucases)
        ctx.extra_distinct += sum(1 for c in ucases if any(x >= 0x80 for x in c))
        ctx.count("utf8:valid", sum(1 for x in out_m if x == "1"))
        ctx.count("utf8:invalid", sum(1 for x in out_m if x == "0"))
        if bad:
            ctx.disagreements_checked += len(bad)
            tie(ctx, "correspondence: utf8_valid (model of std::str::from_utf8) differs from the real function",
                           "; ".join("%s impl=%s model=%s" % (c.hex(), a, b) for c, a, b in bad[:10]))

    # ---------------------------------------------------------------- SIGPIPE: a client that has not ignored it
    # child processes with the default disposition connect to a server that closes at accept / after k client bytes;
    # every child must come back with an error (the model: the NUL write or the next read fails -> Err), none may be
    # killed by a signal. The server thread has real-time priority on the child's CPU, so its close lands between the
    # child's connect() and first sendmsg() in nearly every child (measured 94-100 % without MSG_NOSIGNAL).
    nsig = 600 if thorough else 80
    slines = ["s %d 0" % nsig, "s %d 1" % (nsig // 4), "s %d 5" % (nsig // 4)]
    rc_m, out_m, _ = run_proc([drv], ["h %d 0 c" % os.getuid(), "h %d 0 k;c" % os.getuid()])
    if rc_m != 0 or [l.split(" ")[0] for l in out_m] != ["err", "err"]:
        tie(ctx, "model does not return an error for a server that closes at accept / after the first line", str(out_m))
    try:
        rc_i, out_i, err_i = run_proc([exe], slines, cwd=work, env=env, timeout=600)
    except subprocess.TimeoutExpired:
        rc_i, out_i, err_i = 1, [], "timeout"
    if rc_i != 0 or len(out_i) != len(slines) + 1:
        tie(ctx, "harness c17 crashed or produced short output on the SIGPIPE stream", (err_i or "")[-1000:])
    else:
        for sl, li in zip(slines, out_i[1:]):
            d = dict(x.split("=") for x in li.split(" ")[1:])
            n = int(sl.split(" ")[1])
            ctx.evaluations += n
            ctx.extra_distinct += 1
            ctx.count("sigpipe:children", n)
            ctx.count("sigpipe:returned_error", int(d["err"]))
            data = {"kind": "sig", "line": sl, "impl": li}
            if int(d["killed"]) > 0:
                ctx.disagreements_checked += 1
                ctx.violation("a client with the default SIGPIPE disposition is killed by a signal instead of connect_to_bus returning an error "
                              "when the server closes (%s of %d children)" % (d["killed"], n), data)
            elif int(d["ok"]) > 0:
                ctx.disagreements_checked += 1
                ctx.violation("success reported although the server closed without answering", data)
            elif int(d["other"]) > 0 or int(d["err"]) != n:
                ctx.disagreements_checked += 1
                tie(ctx, "correspondence: a child of the SIGPIPE stream ended in an unexpected way", str(data))

    # ---------------------------------------------------------------- handshakes
    r = ctx.sub_rng("hs")
    scripts = [script_from_line(l) for l in corpus if l.startswith("h ")] + gen_scripts(r, thorough, os.getuid())
    own_uid = os.getuid()
    small = [s for s in scripts if s.tag in ("probe", "pipelined", "greeting", "bytewise", "garbage")] + \
            [s for s in scripts if s.tag == "class1"][::7] + [s for s in scripts if s.tag == "close1"][::5]
    other_uids = [1, 10, 89, 1000, 65534, 100000, 1234567890, 4294967294] + [r.randrange(2, 2 ** 32 - 1) for _ in range(6 if thorough else 2)]
    runs = [(None, own_uid, scripts)]
    if own_uid == 0:
        runs += [(u, u, small) for u in other_uids if u != own_uid]
    else:
        ctx.extra["uids"] = "not root: only the own uid %d is exercised against the implementation" % own_uid
    hs_samples = 0
    dropped_report = []
    uids_done = []
    hung = False
    for setuid, uid, scs in runs:
        if hung and setuid is not None:
            ctx.extra["uids_skipped_after_hang"] = True
            break
        cmd = [exe] + (["--uid", str(setuid)] if setuid is not None else [])
        hlines = [s.harness_line() for s in scs]
        mlines = [s.model_line(uid) for s in scs] + ["x %d" % uid]
        try:
            rc_i, out_i, err_i = run_proc(cmd, hlines, cwd=work, env=env, timeout=600)
        except subprocess.TimeoutExpired:
            tie(ctx, "harness c17 did not finish the handshake stream (uid %d)" % uid, "")
            continue
        rc_m, out_m, err_m = run_proc([drv], mlines)
        if out_i and out_i[0] == "NOSETUID":
            ctx.extra.setdefault("uids_skipped", []).append(uid)
            continue
        if rc_i != 0 or len(out_i) != len(hlines) + 1 or out_i[0] != "UID %d" % uid:
            tie(ctx, "harness c17 crashed or produced short output on the handshake stream (uid %d)" % uid,
                           (err_i or "")[-2000:] + "\n".join(out_i[:1] + out_i[-2:]))
            continue
        if rc_m != 0 or len(out_m) != len(mlines):
            tie(ctx, "extracted model driver crashed on the handshake stream", (err_m or "")[-2000:])
            continue
        uids_done.append(uid)
        # the AUTH argument, computed three ways: model get_uid_as_hex, Python, and what the server received
        if out_m[-1] != hx(uid_hex(uid)):
            tie(ctx, "model get_uid_as_hex differs from hex(str(uid))", "%d: %s" % (uid, out_m[-1]))
        for sc, li, lm in zip(scs, out_i[1:], out_m):
            i, m = parse_hs(li), parse_hs(lm)
            det = sc.deterministic()
            nontrivial = any(any(ch) for ch, _ in sc.steps)
            ctx.case(("h", uid, sc.harness_line()), nontrivial=nontrivial, sample=None)
            ctx.count("hs:" + sc.tag)
            ctx.count("hs:model=" + m["cls"])
            ctx.count("hs:socket=" + ("path" if sc.kind == "p" else "abstract"))
            if hs_samples < 5 and sc.tag in ("cutk", "close2", "pipelined", "class1", "probe") and (hs_samples + len(sc.text())) % 3 == 0:
                hs_samples += 1
                ctx.samples.append({"uid": uid, "with_fd": sc.fd, "script": sc.text(), "impl": li, "model": lm})
            if (i["cls"] == "hang" or i["cls"] == "skipped") and not hung:
                # a hang detector fired (4 s): before it counts, the script is run again alone with a 20 s deadline
                # (once a hang has been confirmed this way, further ones count directly)
                try:
                    _, out_r, _ = run_proc(cmd, [sc.harness_line()], cwd=work, env=dict(env, C17_DEADLINE_MS="20000"), timeout=150)
                except subprocess.TimeoutExpired:
                    out_r = []
                if len(out_r) == 2 and not out_r[1].startswith("hang"):
                    ctx.extra["slow_but_returned_on_rerun"] = ctx.extra.get("slow_but_returned_on_rerun", 0) + 1
                    li = out_r[1]
                    i = parse_hs(li)
                else:
                    hung = True
                    i = dict(i, cls="hang")
            if i["cls"] == "skipped":
                tie(ctx, "harness stopped after repeated hangs", sc.harness_line())
                continue
            S = unhx(i["S"])
            data = {"kind": "hs", "uid": uid, "setuid": setuid, "line": sc.harness_line(), "impl": li[:400], "model": lm[:400], "tag": sc.tag}
            if m["cls"] in ("blocked", "panic", "fuel"):
                if m["cls"] == "blocked":
                    tie(ctx, "generator produced a script on which the model waits for the server", sc.harness_line())
                else:
                    tie(ctx, "model returned %s" % m["cls"], sc.harness_line())
                continue
            why = judge_hs(uid, sc, i["cls"], S, i.get("M", "-"), int(i.get("W", "0")))
            if why:
                ctx.disagreements_checked += 1
                ctx.violation(why, data)
                continue
            if sc.garbage:
                ctx.extra.setdefault("garbage_server_bytes_written", []).append(int(i.get("W", "0")))
            if det:
                # the property distinguishes success from failure and says which bytes may be on the wire (no BEGIN after a
                # refusal); it does not name error variants, so AuthFailed / UnixFdNegotiationFailed / io errors are one class
                if (i["cls"] == "ok") != (m["cls"] == "ok") or S != unhx(m["S"]):
                    ctx.disagreements_checked += 1
                    tie(ctx, "correspondence: success/failure or client bytes differ from the model "
                                   "(the property predicate holds on the implementation's output)", str(data))
                elif i["cls"] != m["cls"]:
                    ctx.extra["error_variant_differs_from_model_not_judged"] = ctx.extra.get("error_variant_differs_from_model_not_judged", 0) + 1
            else:
                if i["cls"] not in ("err", "authfailed", "fdfailed", "ok"):
                    tie(ctx, "unexpected result class", str(data))
            if sc.tag == "pipelined" and setuid is None:
                r1 = unhx(m["L"].split("/")[0]) if m["L"].split("/")[0] != "none" else b""
                lost = r1[r1.index(CRLF) + 2:] if CRLF in r1 else b""
                dropped_report.append({"script": sc.text(), "with_fd": sc.fd, "result_impl": i["cls"], "result_model": m["cls"],
                                       "bytes_after_first_line_dropped_by_model": lost.decode("latin-1")})
    ctx.extra["uids_exercised"] = uids_done
    missing = sorted(set("0123456789") - set("".join(str(u) for u in uids_done)))
    ctx.extra["uid_digits_exercised_against_the_implementation"] = "all ten" if not missing else (
        "digits %s of get_uid_as_hex were not exercised against the implementation (setuid not possible here); the model side is "
        "compared with hex(str(uid)) for all of them" % ",".join(missing))
    rc_m, out_m, _ = run_proc([drv], ["x %d" % u for u in (0, 1234567890, 89, 4294967295, 9876543210 % 2 ** 32)])
    for u, l in zip((0, 1234567890, 89, 4294967295, 9876543210 % 2 ** 32), out_m):
        if l != hx(uid_hex(u)):
            tie(ctx, "model get_uid_as_hex differs from hex(str(uid))", "%d: %s" % (u, l))
    ctx.extra["pipelining"] = {
        "what": "read_message reads up to 512 bytes into a local buffer and drops what follows the first CR LF: a server that sends "
                "the next reply (or the first message) in the same write loses those bytes; bytes arriving in a later read stay in the socket "
                "(theorems C17_auth_bytes, C17_auth_drops; examples hs_pipelined_lost / hs_pipelined_kept)",
        "measured": dropped_report[:6]}
    ctx.exhaustive = False


def replay(ctx, body):
    data = body["data"]
    exe = vlib.harness_build(["c17"])["c17"]
    drv = vlib.ocaml_build("c17")
    work = os.path.join(vlib.SCRATCH, "c17_%d" % os.getpid())
    shutil.rmtree(work, ignore_errors=True)
    os.makedirs(work)
    os.chmod(work, 0o777)
    env = {"VERIF_SCRATCH": work}
    try:
        if data.get("kind") == "addr":
            w = AddrWorld(os.path.join(work, "addr"))
            _, out_i, _ = run_proc([exe], [data["line"]], cwd=w.dir, env=env)
            _, out_m, _ = run_proc([drv], [data["line"]])
            h = data["line"][2:]
            addr = None if h == "none" else unhx(h)
            impl = out_i[1].split(" ", 1)[1]
            model, _ = addr_expected(w, out_m[0])
            why = judge_addr(w, addr, impl, model)
            print("address:", (addr or b"<unset>").decode("utf-8", "replace"))
            print("impl :", impl)
            print("model:", model)
        elif data.get("kind") == "hs":
            sc = script_from_line(data["line"])
            uid = data["uid"]
            cmd = [exe] + (["--uid", str(data["setuid"])] if data.get("setuid") is not None else [])
            _, out_i, _ = run_proc(cmd, [sc.harness_line()], cwd=work, env=env)
            _, out_m, _ = run_proc([drv], [sc.model_line(uid)])
            i = parse_hs(out_i[1])
            why = judge_hs(uid, sc, i["cls"], unhx(i["S"]), i.get("M", "-"), int(i.get("W", "0")))
            print("script:", data["line"], "uid", uid)
            print("impl :", out_i[1])
            print("model:", out_m[0])
        elif data.get("kind") == "sig":
            _, out_i, _ = run_proc([exe], [data["line"]], cwd=work, env=env)
            d = dict(x.split("=") for x in out_i[1].split(" ")[1:])
            why = ("%s children killed by a signal" % d["killed"]) if int(d["killed"]) > 0 else None
            print("line:", data["line"])
            print("impl:", out_i[1])
        else:
            print("nothing to replay:", body.get("what"))
            return 2
    finally:
        shutil.rmtree(work, ignore_errors=True)
    if why:
        print("REPRODUCED:", why)
        return 1
    print("not reproduced (the implementation's output satisfies the property on this input)")
    return 0
