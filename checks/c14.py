"""C14 - RpcConn delivers every accepted message exactly once to the right consumer.

Proof: coq/Properties/C14.v (the model of rpc_conn.rs refines the container specification for every
filter, operation sequence and arrival sequence with distinct reply serials; consequences: arrival
order for signals and calls, replies only to the matching serial, accepted = handed out once or still
waiting, rejected never handed out, one unknown-method error per rejected call, correctly addressed).
Tie: the extracted model (ocaml/c14) and the real RpcConn (harness bin c14: real DuplexConn, the
peer end of the socket writes the arrivals and reads back what RpcConn sends; in the stream
connect_to_path the client is built by RpcConn::connect_to_path against a scripted bus) run the same operation
sequences under the same filter (chosen by index from a table written in both places); every
operation's result and every error seen at the peer or returned by refill_all must agree.  The
property predicate is also evaluated directly on the implementation's output for every sequence.
"""
import glob
import itertools
import os

import vlib

MEMBERS = ["A1", "Ab", "B2", "B22", "Cx", "Ayy", "Bq", "D", "Axyz", "Bb"]
NFILTERS = 16
UNKNOWN = "org.freedesktop.DBus.Error.UnknownMethod"


FLAGS = [0, 0, 1, 2, 4, 7, 255]      # NO_REPLY_EXPECTED = 1, NO_AUTO_START = 2, ALLOW_INTERACTIVE_AUTHORIZATION = 4


def gen_messages(r, n, serial0=1):
    """n message specs <kind>.<serial>.<reply>.<member>.<sender>.<iface>.<flags>.<byte order>.<destination> with
    distinct serials and distinct reply serials among the replies and errors (the body varies with the serial). About a
    fifth of the calls and signals carry a REPLY_SERIAL field as well - a fresh one or the one of a reply/error of the
    same set: they are still calls and signals and must be routed by their type"""
    out = []
    replies = r.sample(range(100, 140 + 8 * n), 2 * n)
    for i in range(n):
        k = r.choice("ccssre")
        serial = serial0 + i
        extra = ".%d.%s.%d" % (r.choice(FLAGS), r.choice("lB"), r.randrange(2))
        if k in "cs":
            rep = r.choice(replies) if r.random() < 0.2 else 0
            out.append("%s.%d.%d.%s.%d.%d%s" % (k, serial, rep, r.choice(MEMBERS), r.randrange(2), r.randrange(2), extra))
        else:
            out.append("%s.%d.%d.-.%d.0%s" % (k, serial, replies[i], r.randrange(2), extra))
    return out


def reply_serial(spec):
    return int(spec.split(".")[2])


SPLITS = ["1", "3", "4", "7", "8", "11", "12", "13", "15", "16", "17", "20", "24", "31", "40",      # fixed header, length fields, header fields
          "b-9", "b-2", "b-1", "b+0", "b+1", "b+3", "b+4", "b+5", "b+9", "b+20", "b+40", "e-1", "e-2", "e-7"]   # padding, boundary, body


def split_class(k):
    if k[0] == "b":
        return "split:body" if k[1] == "+" and k != "b+0" else ("split:header/body boundary" if k == "b+0" else "split:header fields/padding")
    if k[0] == "e":
        return "split:body"
    return "split:fixed header" if int(k) < 16 else "split:header fields/padding"


def gen_ops(r, arrivals, style, split=0.0, before=(), more_serials=()):
    """operations interleaved with the arrivals, then a complete drain. With probability [split] an arrival
    is written by the peer in two pieces (ap:<spec>:<k> ... af) with client operations in between; only
    client operations may stand between the two pieces (the pieces are consecutive in the byte stream).
    [before]: messages that have arrived already (the connect prologue); the drain covers them too."""
    serials = sorted(set([reply_serial(a) for a in list(before) + list(arrivals) if reply_serial(a)] + list(more_serials)))
    ops = []

    def arrive(a):
        if r.random() < split:
            ops.append("ap:%s:%s" % (a, r.choice(SPLITS)))
            # mostly operations that read from the socket while only the first piece is there
            for _ in range(r.choice([1, 1, 2, 3])):
                ops.append(r.choice(["ra", "ra", "ro", "ws", "wc", "wr:%d" % (r.choice(serials) if serials else 97), some_op()]))
            ops.append("af")
        else:
            ops.append("a:" + a)

    def some_op():
        k = r.random()
        if k < 0.14:
            return "tr:%d" % (r.choice(serials) if serials and r.random() < 0.8 else 99)
        if k < 0.24:
            return "ts"
        if k < 0.34:
            return "tc"
        if k < 0.52:
            return "wr:%d" % (r.choice(serials) if serials and r.random() < 0.85 else 98)
        if k < 0.66:
            return "ws"
        if k < 0.80:
            return "wc"
        if k < 0.88:
            return "ro"
        if k < 0.93:
            return "tro"
        if k < 0.945:
            # RpcConn's two pass-throughs to SendConn (invisible to the model: they must not disturb anything)
            return r.choice(["as", "sm"])
        if k < 0.965:
            # a new filter mid-run; the socket is drained first so that it applies to later arrivals only
            return "ra,sf:%d" % r.randrange(NFILTERS)
        return "ra"

    for a in arrivals:
        if style in ("after_all", "pull_all"):
            arrive(a)
            continue
        for _ in range(r.choice([0, 0, 1, 1, 2, 3]) if style == "mixed" else r.choice([0, 1])):
            ops.append(some_op())
        arrive(a)
    if style == "pull_all":
        # everything is read through refill_once (a wait for a reply that never comes, or one refill per arrival),
        # i.e. through insert_message_or_send_error and not through refill_all's own copy of that code
        ops += r.choice([["wr:98"], ["ro"] * len(arrivals), ["tro"] * len(arrivals), ["wr:97", "ws", "wc"],
                         ["ro"] * (len(arrivals) // 2) + ["wr:98"]])
    for _ in range(r.choice([0, 1, 2, 4, 6]) if style != "drain_only" else 0):
        ops.append(some_op())
    # complete drain
    n = len(arrivals) + len(before)
    ops.append(r.choice(["ra", "ra", "ro", "ws", "wc"]))
    ops.append("ra")
    drain = ["ts"] * (n + 1) + ["tc"] * (n + 1) + ["tr:%d" % s for s in serials] + ["tr:%d" % s for s in serials]
    if r.random() < 0.5:
        r.shuffle(drain)
    ops += drain
    return [x for o in ops for x in o.split(",")]


def gen_connect(r):
    """The client is built by RpcConn::connect_to_path (what session_conn / system_conn call): the scripted bus answers
    the Hello call (serial 1: the first serial of a new SendConn) with k arbitrary messages in front of the reply (or
    error) to Hello and m behind it, all written before connect_to_path can return.  For the model that is: those
    arrivals, then `wait_response 1` as the first client operation (default filter).  Then the usual operations,
    possibly a set_filter, further arrivals and the complete drain, which covers the prologue's messages too."""
    k = r.choice([0, 1, 1, 2, 2, 3, 4, 6])
    m = r.choice([0, 0, 0, 1, 2, 3])
    later = r.choice([0, 0, 1, 2, 3, 4])
    msgs = gen_messages(r, k + m + later, serial0=2)
    r.shuffle(msgs)
    hello = "%s.%d.1.-.%d.0.%d.%s.%d" % (r.choice("rrre"), k + m + later + 2, r.randrange(2), r.choice(FLAGS), r.choice("lB"), r.randrange(2))
    pro = msgs[:k] + [hello] + msgs[k:k + m]
    ops = ["ca:" + a for a in pro] + ["cn:1"]
    f = r.random()
    if f < 0.45:
        ops += ["ra", "sf:%d" % r.randrange(NFILTERS)]       # applies to later arrivals (the socket is drained first)
    elif f < 0.55:
        ops += ["sf:0"]                                      # a set_filter call with the same verdicts as the default
    ops += gen_ops(r, msgs[k + m:], r.choice(["mixed", "mixed", "light", "after_all", "drain_only"]),
                   split=r.choice([0.0, 0.0, 0.3]), before=pro, more_serials=(1,))
    return ops


# ------------------------------------------------------------------ the property on the implementation's own output

def parse_tokens(line):
    toks = []
    for t in line.split(","):
        if "|" in t:
            a, b = t.split("|", 1)
        else:
            a, b = t, ""
        toks.append((a.split("#")[0], [x for x in b.split(";") if x]))
    return toks


def norm(line):
    """what is compared between implementation and model: error variants and the kind reported by refill_once are
    not constrained by the property and collapse to E / Y"""
    out = []
    for t in line.split(","):
        a, _, b = t.partition("|")
        head, _, cnt = a.partition("#")
        if head.startswith("E"):
            head = "E"
        elif head.startswith("Y"):
            head = "Y"
        out.append(head + ("#" + cnt if cnt else "") + "|" + b)
    return out


def hx(s):
    return s.encode().hex() if s else "-"


def expected_error(spec):
    k, serial, _, member, sender, iface = spec.split(".")[:6]
    text = "No calls to %s.%s are accepted for object /o" % ("i.f" if iface == "1" else "", member)
    return "%s~%s~%s~%s" % (serial, hx(":1.5") if sender == "1" else "_", hx(UNKNOWN), hx(text))


def property_verdict(ops, toks):
    """None when the implementation's outputs on this (fully drained) sequence satisfy C14, else what fails"""
    if toks and toks[-1][0] == "HANG":
        return "operation %s did not return within 2 s although the message it waits for had arrived" % ops[len(toks) - 1]
    if len(toks) != len(ops):
        return "harness produced %d results for %d operations" % (len(toks), len(ops))
    # the connect prologue in the terms of the model: `ca` = an arrival, `cn:<s>` = wait_response(s) inside connect_to_path
    ops = [("a:" + o[3:]) if o.startswith("ca:") else ("wr:" + o[3:]) if o.startswith("cn:") else o for o in ops]
    arrived = {}          # ident -> (index of arrival, accepted)
    part = None           # spec of the arrival whose first piece has been written
    order = []
    handed = []
    errors = []
    for i, (op, (tok, sent)) in enumerate(zip(ops, toks)):
        p = op.split(":")
        errors += sent
        if p[0] == "ap":
            part = p[1]
            if tok != "p":
                return "harness could not write the first piece of an arrival (%s)" % tok[:40]
            continue
        if p[0] in ("a", "af"):
            if p[0] == "af":
                p = ["a", part]
            f = p[1].split(".")
            ident = "%s.%s.%s.%s" % (f[0], f[1], f[2], f[3])
            arrived[ident] = (i, tok == "+", p[1])
            order.append(ident)
            continue
        if tok.startswith("E") or tok.startswith("PANIC") or tok.startswith("LEFTOVER") or tok == "?":
            return "operation %s failed with %s" % (op, tok[:90])
        if p[0] in ("as", "sm"):
            continue
        if tok.startswith("R"):
            errors += [x for x in tok[1:].split(";") if x]
        if tok.startswith("M"):
            ident = tok[1:]
            if ident not in arrived:
                return "operation %s handed out a message that never arrived (%s)" % (op, ident)
            if not arrived[ident][1]:
                return "a message the filter rejects was handed out (%s)" % ident
            if ident in [h[1] for h in handed]:
                return "message %s handed out twice" % ident
            kind, _, rep, _ = ident.split(".")
            if p[0] in ("tr", "wr"):
                if kind not in "re" or rep != p[1]:
                    return "%s returned %s: not a reply/error for that serial" % (op, ident)
            elif p[0] in ("ts", "ws"):
                if kind != "s":
                    return "%s returned a non-signal %s" % (op, ident)
            elif p[0] in ("tc", "wc"):
                if kind != "c":
                    return "%s returned a non-call %s" % (op, ident)
            else:
                return "%s returned a message" % op
            handed.append((p[0], ident))
    for kind in "sc":
        got = [h[1] for h in handed if h[1][0] == kind]
        want = [x for x in order if x[0] == kind and arrived[x][1]]
        if got != want:
            if sorted(got) == sorted(want):
                return "%s not handed out in arrival order" % ("signals" if kind == "s" else "calls")
            return "accepted %s not all handed out exactly once after a complete drain (%d of %d)" % (
                "signals" if kind == "s" else "calls", len(got), len(want))
    got = sorted(h[1] for h in handed if h[1][0] in "re")
    want = sorted(x for x in order if x[0] in "re" and arrived[x][1])
    if got != want:
        return "accepted replies/errors not all handed out exactly once after a complete drain (%d of %d)" % (len(got), len(want))
    want_err = [expected_error(arrived[x][2]) for x in order if x[0] == "c" and not arrived[x][1]]
    if errors != want_err:
        if len(errors) != len(want_err):
            return "%d unknown-method errors for %d rejected calls" % (len(errors), len(want_err))
        if sorted(errors) == sorted(want_err):
            return "unknown-method errors not in the order of the rejected calls"
        return "an unknown-method error is not addressed to its caller / has the wrong content"
    return None


def run_batch(ctx, exe, drv, cases, kind):
    frng = ctx.sub_rng("infinite/" + kind)
    # the model sees an arrival when it is complete: `ap` is invisible to it, `af` is the arrival
    def model_ops(ops):
        out, part = [], None
        for o in ops:
            if o.startswith("ap:"):
                part = o.split(":")[1]
            elif o == "af":
                out.append("a:" + part)
            elif o in ("as", "sm"):
                pass                                  # alloc_serial / send_message: no operation of the model
            elif o.startswith("ca:"):
                out.append("a:" + o[3:])              # written by the scripted bus during connect_to_path
            elif o.startswith("cn:"):
                out.append("wr:" + o[3:])             # connect_to_path = wait_response(serial of Hello), default filter
            else:
                out.append(o)
        return out
    lines = ["run %d %s" % (f, ",".join(model_ops(ops))) for f, ops in cases]
    ok, mout, err = vlib.par_run_lines(drv, [], lines)
    if not ok:
        ctx.tie_broken("extracted model driver c14 crashed", err)
        return
    hl = []
    exp = []
    for (f, ops), mo in zip(cases, mout):
        o, e = mo.split(" ", 1)
        mo_ops, mo_res = iter(o.split(",")), iter(e.split(","))
        h_ops, h_exp = [], []
        for op in ops:
            if op.startswith("ap:"):
                h_ops.append(op)
                h_exp.append("p|")
            elif op in ("as", "sm"):
                h_ops.append(op)
                h_exp.append("S|")
            else:
                m_op, m_res = next(mo_ops), next(mo_res)
                if m_op.endswith(":I") and frng.random() < 0.35:
                    m_op = m_op[:-1] + "F"          # really Timeout::Infinite: the model says the message is there
                h_ops.append("af" if op == "af" else op if op.startswith("ca:") else "cn:" + m_op[3:] if op.startswith("cn:") else m_op)
                h_exp.append(m_res)
        hl.append("run %d %s" % (f, ",".join(h_ops)))
        exp.append(",".join(h_exp))
    ok, iout, err = vlib.par_run_lines(exe, [], hl)
    if not ok:
        ctx.tie_broken("harness c14 crashed or hung", err)
        return
    judge(ctx, exe, kind, [f for f, _ in cases], hl, exp, iout)


def judge(ctx, exe, kind, filters, hl, exp, iout):
    for f, line, e, io in zip(filters, hl, exp, iout):
        if io.startswith("SETUPFAIL"):
            ctx.extra["not_evaluated"] = ctx.extra.get("not_evaluated", 0) + 1
            ctx.count("set-up failed (connect_to_bus / auth handshake)")
            continue
        if io == "SKIPPED":
            ctx.extra["not_evaluated"] = ctx.extra.get("not_evaluated", 0) + 1
            ctx.count("sequences skipped after three stuck cases in one harness process")
            continue
        if io.startswith("STUCK"):
            # every operation of a sequence is bounded (Nonblock, 1 ms, tiny, or the 2 s stand-in); a case that
            # does not finish within its deadline is re-run alone with a longer one before it counts
            ctx.count("cases that exceeded their deadline")
            if ctx.extra.get("stuck_reruns", 0) >= 2:
                ctx.extra["not_evaluated"] = ctx.extra.get("not_evaluated", 0) + 1
                continue
            ctx.extra["stuck_reruns"] = ctx.extra.get("stuck_reruns", 0) + 1
            rc, again, _ = vlib.run_lines(exe, [], [line], timeout=100, env={"C14_CASE_MS": "15000"})
            io = again[0] if rc == 0 and len(again) == 1 else "STUCK|"
            if io.startswith("STUCK"):
                ctx.disagreements_checked += 1
                ctx.violation("an RpcConn operation never returned (sequence not finished after 15 s) although all its operations are bounded",
                              {"line": line, "impl": io, "model": e})
                continue
        if "HANG|" in io:
            # a wait with the 2 s stand-in for Infinite timed out although the model says its message is there:
            # before that counts, the sequence runs once more, alone, with a 20 s deadline
            # (at most 8 such re-runs per run - each may take 20 s; a HANG beyond that is not judged at all: it is
            # counted as not evaluated, which ends the run as a broken tie, never as a violation)
            if ctx.extra.get("hang_reruns", 0) >= 8:
                ctx.extra["not_evaluated"] = ctx.extra.get("not_evaluated", 0) + 1
                ctx.count("HANG cases not re-run (more than 8 in one run)")
                continue
            ctx.extra["hang_reruns"] = ctx.extra.get("hang_reruns", 0) + 1
            ctx.count("HANG re-runs")
            rc, again, _ = vlib.run_lines(exe, [], [line], timeout=600, env={"C14_LONG_MS": "20000"})
            if rc == 0 and len(again) == 1:
                io = again[0]
        ops = line.split(" ", 2)[2].split(",")
        toks = parse_tokens(io)
        narr = sum(1 for o in ops if o.startswith("a:") or o == "af" or o.startswith("ca:"))
        nrej = sum(1 for o, t in zip(ops, toks) if (o.startswith("a:") or o == "af") and t[0] == "-")
        cn = [i for i, o in enumerate(ops) if o.startswith("cn:")]
        if cn:
            ctx.count("client built by RpcConn::connect_to_path (scripted bus)")
            hello = [i for i in range(cn[0]) if ops[i].split(".")[2] == ops[cn[0]].split(":")[1] and ops[i][3] in "re"][0]
            ctx.count("  arrivals in front of the Hello reply: %s" % (hello if hello < 4 else "4+"))
            ctx.count("  arrivals behind the Hello reply, written before connect_to_path returns", cn[0] - 1 - hello)
            ctx.count("  Hello answered by an error", 1 if ops[hello][3] == "e" else 0)
        ctx.count("calls/signals carrying a REPLY_SERIAL field", sum(
            1 for o in ops if o[:2] in ("a:", "ap", "ca") and o.split(":")[1][0] in "cs" and o.split(":")[1].split(".")[2] != "0"))
        ctx.count("alloc_serial / send_message calls", sum(1 for o in ops if o in ("as", "sm")))
        splits = [o.split(":")[2] for o in ops if o.startswith("ap:")]
        ctx.count("sequences with a split arrival", 1 if splits else 0)
        for k in splits:
            ctx.count(split_class(k))
        # reads attempted while only the first piece of an arrival is on the socket
        inside = False
        for o in ops:
            if o.startswith("ap:"):
                inside = True
            elif o == "af":
                inside = False
            elif inside and o[:2] in ("wr", "ws", "wc", "ro", "ra"):
                ctx.count("socket reads between the two pieces of an arrival")
        nontrivial = narr >= 2 and any(o[:2] in ("wr", "ws", "wc", "ro", "ra", "cn") for o in ops[:-1])
        ctx.case((f, tuple(ops)), nontrivial=nontrivial,
                 sample={"filter": f, "ops": ",".join(ops)[:500], "results": io[:500]} if kind == "random" and len(ops) < 30 else None)
        ctx.count("kind:" + kind)
        ctx.count("waits with Timeout::Infinite (message already queued)", sum(1 for o in ops if o.endswith(":F")))
        ctx.count("try_refill_once calls", sum(1 for o in ops if o.startswith("tro")))
        ctx.count("set_filter in the middle of a run", sum(1 for o in ops if o.startswith("sf:")))
        if narr >= 10:
            ctx.count("sequences with 10-100 arrivals")
            ctx.count("arrivals:10+")
        ctx.count("filter:%d" % f)
        if narr < 10:
            ctx.count("arrivals:%d" % narr)
        ctx.count("rejected arrivals", nrej)
        tiny = [(o, t) for o, t in zip(ops, toks) if o.rsplit(":", 1)[-1].startswith("u")]
        if tiny:
            ctx.count("operations with a deadline of 0-200 us while messages are queued", len(tiny))
            ctx.count("  ... that timed out", sum(1 for o, t in tiny if t[0] == "T"))
            ctx.count("  ... that returned their message", sum(1 for o, t in tiny if t[0][:1] in "MY"))
        ctx.count("results:timed out", sum(1 for t in toks if t[0] == "T"))
        ctx.count("results:message", sum(1 for t in toks if t[0].startswith("M")))
        ctx.count("errors seen at peer", sum(len(t[1]) for t in toks))
        ctx.count("errors returned by refill_all", sum(len([x for x in t[0][1:].split(";") if x]) for t in toks if t[0].startswith("R")))
        verdict = property_verdict(ops, toks)
        data = {"line": line, "impl": io, "model": e}
        if verdict is not None:
            ctx.disagreements_checked += 1
            ctx.violation(verdict, data)
        elif norm(io) != norm(e):
            ctx.disagreements_checked += 1
            ctx.tie_broken("correspondence: implementation and model differ on an operation sequence on which the property itself is "
                           "not violated", str(data)[:3000])


TINY_US = [0, 1, 2, 3, 4, 5, 6, 8, 10, 12, 15, 20, 25, 30, 40, 50, 70, 100, 150, 200]


def gen_tiny(r):
    """whole arrivals, then waits / refill_once whose deadline is so close that it may pass while the call is at work;
    every other blocking operation is non-blocking (mode N), so no timeout mode depends on the branch taken"""
    msgs = gen_messages(r, r.choice([2, 3, 4, 5, 6]))
    r.shuffle(msgs)
    serials = [reply_serial(a) for a in msgs if reply_serial(a)]
    ops = []
    k = r.randrange(1, len(msgs) + 1)
    ops += ["a:" + a for a in msgs[:k]]

    def tiny():
        u = "u%d" % r.choice(TINY_US)
        c = r.random()
        if c < 0.3:
            return "ws:" + u
        if c < 0.6:
            return "wc:" + u
        if c < 0.85:
            return "wr:%d:%s" % (r.choice(serials) if serials and r.random() < 0.9 else 98, u)
        return "ro:" + u

    for _ in range(r.choice([1, 2, 3, 4])):
        ops.append(tiny())
        if r.random() < 0.3:
            ops.append(r.choice(["ts", "tc", "ws:N", "wc:N", "ro:N"] + ["tr:%d" % x for x in serials[:1]]))
    ops += ["a:" + a for a in msgs[k:]]
    for _ in range(r.choice([0, 1, 2])):
        ops.append(tiny())
    ops += ["ra", "ra"]
    n = len(msgs)
    ops += ["ts"] * (n + 1) + ["tc"] * (n + 1) + ["tr:%d" % x for x in serials] + ["tr:%d" % x for x in serials]
    return ops


def run_tiny_batch(ctx, exe, drv, cases):
    """The implementation runs first; an operation with a tiny deadline reports what happened (time-out or
    message) and how many arrivals it read.  The model is then asked for exactly that branch: a time-out after
    n refills is its `budget` = n, a message is an unlimited budget.  Both branches are admissible; whichever is
    taken, the results must agree with the model from there on and the drained sequence must satisfy the property."""
    hl = ["run %d %s" % (f, ",".join(ops)) for f, ops in cases]
    ok, iout, err = vlib.par_run_lines(exe, [], hl)
    if not ok:
        ctx.tie_broken("harness c14 crashed or hung", err)
        return
    ml = []
    for (f, ops), io in zip(cases, iout):
        mops = []
        for o, t in zip(ops, io.split(",")):
            mode = o.rsplit(":", 1)[-1]
            if not mode.startswith("u"):
                mops.append(o)
                continue
            head, _, cnt = t.partition("|")[0].partition("#")
            base = o.rsplit(":", 1)[0]
            if head == "T" and cnt.isdigit():
                mops.append("nop" if base == "ro" and cnt == "0" else base + (":B" if base == "ro" else ":b" + cnt))
            else:
                mops.append(base + ":B")
        ml.append("run %d %s" % (f, ",".join(mops)))
    ok, mout, err = vlib.par_run_lines(drv, [], ml)
    if not ok:
        ctx.tie_broken("extracted model driver c14 crashed", err)
        return
    judge(ctx, exe, "tiny deadlines", [f for f, _ in cases], hl, [m.split(" ", 1)[1] for m in mout], iout)


def run(ctx):
    thorough = ctx.tier == "thorough"
    ctx.rule = ("case = (filter index 0..15, operation sequence): arrivals are up to 6 messages of mixed kinds (calls, signals, replies, "
                "errors; distinct serials and reply serials; members from a pool so that the member filters split them; header flags from "
                "{0,1,2,4,7,255}, both byte orders, with and without destination, bodies of varying length), a stream of long sequences with "
                "10-100 arrivals, filter index 16 = no set_filter call (RpcConn::new's default), set_filter in the middle of a run (after a "
                "refill_all, so that it applies to later arrivals), try_refill_once besides refill_once, all "
                "permutations of message sets of size <= 4 and random orders of size 5-6, interleaved with generated try_*/wait_*/"
                "refill_once/refill_all operations (in about a third of the sequences at least one arrival is written by the peer in two "
                "pieces - cut inside the fixed header, the header fields, the padding, at the header/body boundary or inside the body - "
                "with try/wait/refill operations between the pieces; the model sees such an arrival when it is complete), followed by a complete drain (refill_all, then try_get_signal/call n+1 times and "
                "try_get_response twice per reply serial). Blocking operations use Timeout::Infinite (a third) or a 2 s timeout when the model finds the "
                "message, Nonblock when it does not and the socket is non-empty, Duration(1ms) on an empty socket. non-trivial = at "
                "least two arrivals and a wait/refill operation before the final one; distinct = distinct (filter, sequence). Extra stream "
                "'tiny deadlines': wait_* / refill_once with Duration(0..200 us) while messages are queued; the harness reports the "
                "outcome and how many arrivals the call read (FIONREAD), the model is run along that branch. Stream 'connect_to_path': the client "
                "is built by RpcConn::connect_to_path (the body of session_conn/system_conn: auth handshake, Hello through RpcConn::send_message, "
                "wait_response) against a scripted bus that answers the Hello call with 0-6 arbitrary messages in front of the reply or error "
                "to Hello and 0-3 behind it; in the model that is these arrivals followed by wait_response(1) under the default filter; then "
                "set_filter (about half), further operations and arrivals, and the drain, which covers the prologue's messages. About a fifth "
                "of all generated calls and signals carry a REPLY_SERIAL field (fresh, or equal to that of a reply in the same sequence); "
                "alloc_serial and send_message (a call the peer must receive) are sprinkled among the operations")
    ctx.trusted = ["Coq 8.16.1 kernel (coqc), no native_compute", "extraction with ExtrOcamlBasic only, ocamlfind ocamlopt 4.13.1",
                   "ocaml/c14/driver.ml and harness/src/bin/c14.rs (I/O wrappers; the filter table is written in Conn/Rpc.v and in c14.rs - both print their verdict per arrival and these are compared; c14.rs also contains the scripted bus of the connect_to_path stream: server side of the auth handshake, reads the Hello call and checks its serial, writes the scripted answer)",
                   "RecvConn::get_next_message and SendConn::send_message/write_all are black boxes in the model (properties C09, C10)"]
    ctx.assumptions = ["RpcConn::connect_to_path (and session_conn/system_conn, which only look up the address) has no operation of its own in the model: its body is RpcConn::new, send_message(Hello) and wait_response(serial of Hello), and it is run in the model as the messages the bus writes followed by wait_response(1) under the default filter; a connect_to_path that times out or fails returns no RpcConn and is not exercised",
                       "replies and errors carry pairwise distinct reply serials (HashMap::insert would otherwise replace the earlier one - shown as an Example)",
                       "arrivals are messages the wire format can carry (type 1..4; replies/errors have a reply serial - guaranteed by validate_header_fields)",
                       "time-outs that strike between two refills of one wait call (the model's budget argument) are produced on the real connection with deadlines of 0-200 us; how often each budget occurs depends on the machine and is reported in the input distribution",
                       "sending the unknown-method error succeeds (the peer keeps reading) and the connection does not fail in the middle of a drain: the real refill_all returns `Err(e)` on any receive error other than TimedOut and then drops the unknown-method replies it has collected so far, and a failed send in insert_message_or_send_error drops the rejected call without an answer; neither path is in the model or exercised by the harness",
                       "which branch a wait with a deadline of a few microseconds takes (time-out after n refills, or the message) is decided by the clock; both are admissible, the check follows the branch the implementation took (the model's budget argument) and requires the same final outcome after the drain"]
    ctx.try_proof()
    exe = vlib.harness_build(["c14"])["c14"]
    vlib.coq_make(["Conn/Rpc.vo"])
    drv = vlib.ocaml_build("c14")
    r = ctx.sub_rng("gen")

    # corpus
    corpus = []
    for fn in sorted(glob.glob(os.path.join(vlib.VERIF, "corpus", "C14", "*.case"))):
        for line in open(fn):
            line = line.strip()
            if line and not line.startswith("#"):
                f, ops = line.split(" ")
                corpus.append((int(f), ops.split(",")))
    if corpus:
        run_batch(ctx, exe, drv, corpus, "corpus")
    ctx.count("corpus", len(corpus))

    # exhaustive arrival orders for small message sets
    cases = []
    for _ in range(40 if thorough else 6):
        n = r.choice([2, 3, 3, 4, 4])
        msgs = gen_messages(r, n)
        for perm in itertools.permutations(msgs):
            f = r.randrange(NFILTERS)
            cases.append((f, gen_ops(r, list(perm), r.choice(["mixed", "light", "after_all"]))))
    run_batch(ctx, exe, drv, cases, "permutations<=4")

    # every filter on the same sequences
    cases = []
    for _ in range(20 if thorough else 4):
        msgs = gen_messages(r, r.choice([3, 4, 5, 6]))
        ops = gen_ops(r, msgs, "mixed")
        for f in range(NFILTERS):
            cases.append((f, ops))
    run_batch(ctx, exe, drv, cases, "all filters")

    # random
    cases = []
    for _ in range(25000 if thorough else 1200):
        msgs = gen_messages(r, r.choice([1, 2, 3, 4, 5, 6, 6]))
        r.shuffle(msgs)
        cases.append((r.randrange(NFILTERS + 1), gen_ops(r, msgs, r.choice(["mixed", "mixed", "light", "after_all", "drain_only"]),
                                                     split=r.choice([0.0, 0.0, 0.0, 0.25, 0.6]))))
    run_batch(ctx, exe, drv, cases, "random")

    # arrivals written in two pieces: every cut position class, reads in between
    cases = []
    for _ in range(8000 if thorough else 500):
        msgs = gen_messages(r, r.choice([1, 2, 3, 4, 5]))
        r.shuffle(msgs)
        cases.append((r.randrange(NFILTERS), gen_ops(r, msgs, r.choice(["mixed", "light", "after_all"]), split=r.choice([0.5, 1.0]))))
    run_batch(ctx, exe, drv, cases, "split arrivals")

    # the public constructor path: connect_to_path's own wait_response while other messages arrive
    cases = [(16, gen_connect(r)) for _ in range(8000 if thorough else 500)]
    run_batch(ctx, exe, drv, cases, "connect_to_path")

    # long sequences: any bound an implementation might put on a queue, the map or the list of collected errors
    cases = []
    for n in ([10, 16, 25, 40, 60, 100, 100, 30] if not thorough else [r.choice([10, 12, 20, 33, 50, 64, 80, 100]) for _ in range(400)]):
        msgs = gen_messages(r, n)
        r.shuffle(msgs)
        cases.append((r.choice([0, 16, 3, 5, 7, 9, 10, 11, 14, r.randrange(NFILTERS)]),
                      gen_ops(r, msgs, ["pull_all", "after_all", "pull_all", "light"][len(cases) % 4])))
    run_batch(ctx, exe, drv, cases, "long")

    # deadlines that may pass while a wait is at work, messages queued
    cases = [(r.randrange(NFILTERS), gen_tiny(r)) for _ in range(20000 if thorough else 2500)]
    run_tiny_batch(ctx, exe, drv, cases)
    ctx.exhaustive = False
    if ctx.extra.get("not_evaluated"):
        ctx.tie_broken("%d sequences were not evaluated (set-up failure, or skipped / not re-run after stuck cases): the run "
                       "does not show the property on them" % ctx.extra["not_evaluated"], "see the input distribution")


def replay(ctx, body):
    data = body["data"]
    exe = vlib.harness_build(["c14"])["c14"]
    rc, out, err = vlib.run_lines(exe, [], [data["line"]])
    ops = data["line"].split(" ", 2)[2].split(",")
    io = out[0] if out else ""
    why = property_verdict(ops, parse_tokens(io))
    print("ops    :", ",".join(ops))
    print("results:", io)
    if why:
        print("REPRODUCED:", why)
        return 1
    print("not reproduced (the implementation's results satisfy the property on this sequence)")
    return 0
