"""C10 - a message reaches the wire exactly once and intact under any short-write pattern.

Proof: coq/Properties/C10.v (unbounded: every message, every schedule of partial accepts / EAGAIN /
suspend / resume; kernel decisions are an explicit argument of the model in coq/Conn/Send.v).
Tie: the real send path runs on a real AF_UNIX socket whose send buffer is shrunk (harness bin c10), the
peer is drained in scripted amounts, the harness records what the kernel decided for every call; the
recorded history is replayed call by call through the extracted model (ocaml/c10) and every observable
is compared (per-call result and position, header bytes, wire length + CRC, descriptors, serial).
Independently of the model the property predicate is evaluated on the implementation's own output.
"""
import concurrent.futures as cf
import glob
import os
import resource
import shutil
import subprocess

import vlib

TYP_OF_HV = {0: 1, 1: 1, 2: 4, 3: 2, 4: 3, 5: 1, 6: 1}     # 6: legal interface, illegal member name -> refused
MODEL_MAX_QUICK = 48 * 1024
MODEL_MAX_THOROUGH = 160 * 1024
PLENS = [10000, 14000, 23000, 10000, 14000, 23000, 66000, 70000]       # object path of an hv=5 header; two give a header > 64 KiB


def _stack():
    try:
        resource.setrlimit(resource.RLIMIT_STACK, (resource.RLIM_INFINITY, resource.RLIM_INFINITY))
    except (ValueError, OSError):
        pass


def run_proc(exe, lines, timeout, big_stack=False, env=None):
    e = None
    if env:
        e = dict(os.environ)
        e.update(env)
    p = subprocess.run([exe], input="\n".join(lines) + "\n", stdout=subprocess.PIPE, stderr=subprocess.PIPE,
                       text=True, timeout=timeout, preexec_fn=_stack if big_stack else None, env=e)
    out = p.stdout.split("\n")
    if out and out[-1] == "":
        out.pop()
    return p.returncode, out, p.stderr


def run_shard(exe, lines, timeout, big_stack):
    """one worker process per shard; a process that stops early (HANG, abort) is replaced by a fresh one for
    the remaining lines. Returns [(line_output or None, err)] in order."""
    res = []
    pending = list(lines)
    restarts = 0
    while pending:
        try:
            rc, out, err = run_proc(exe, pending, timeout, big_stack)
        except subprocess.TimeoutExpired:
            rc, out, err = -9, [], "timeout after %ss" % timeout
        for o in out[:len(pending)]:
            res.append((o, ""))
        done = len(out)
        if done >= len(pending):
            break
        restarts += 1
        if rc == 0 or restarts > 3 or (done == 0 and rc == -9):
            # no progress information: give up on the rest of this shard
            res.append((None, "rc=%s %s" % (rc, err[-500:])))
            for _ in pending[done + 1:]:
                res.append((None, "not run: worker process kept failing"))
            break
        if not (out and out[-1] == "HANG"):
            # the process died on the next line without printing anything for it
            res.append((None, "rc=%s %s" % (rc, err[-500:])))
            done += 1
        pending = pending[done:]
    return res


def run_sharded(exe, lines, timeout=600, big_stack=False, shards=None):
    """results in input order; (None, err) entries for lines whose worker failed"""
    if not lines:
        return []
    n = max(1, min(shards or vlib.NPROC, len(lines)))
    chunks = [lines[i::n] for i in range(n)]
    res = [None] * len(lines)
    with cf.ThreadPoolExecutor(n) as ex:
        futs = {}
        for i, ch in enumerate(chunks):
            futs[ex.submit(run_shard, exe, ch, timeout, big_stack)] = i
        for f in cf.as_completed(futs):
            i = futs[f]
            r = f.result()
            for k in range(len(chunks[i])):
                res[i + k * n] = r[k] if k < len(r) else (None, "missing")
    # the harness could not set its socket pair up (environment, not the code under test): try again, one by one
    for i, (o, e) in enumerate(res):
        if o == "SETUPFAIL":
            for _ in range(3):
                r = run_shard(exe, [lines[i]], timeout, big_stack)
                if r and r[0][0] != "SETUPFAIL":
                    res[i] = r[0]
                    break
            else:
                res[i] = (None, "the harness could not create its socket pair (3 retries)")
    return res


def private_scratch():
    """socket files of the harness live in a directory nobody else cleans up"""
    import tempfile
    d = tempfile.mkdtemp(prefix="rbv_")
    os.environ["VERIF_SCRATCH"] = d
    return d


# ------------------------------------------------------------------ generators

def gen_script(r, big, abandon=True):
    ops = []
    n = r.choice([0, 1, 2, 4, 8, 12, 20, 30])
    for _ in range(n):
        k = r.random()
        if k < 0.40:
            ops.append("w")
        elif k < 0.65:
            ops.append("d%d" % r.choice([1, 100, 2240, 4544, 5000, 9088, 20000, 100000] + ([1 << 20] if big else [])))
        elif k < 0.74:
            ops.append("s")
        elif k < 0.84:
            ops.append("r")
        elif k < 0.94:
            ops.append("W")
        else:
            ops.append("T")
    if abandon and r.random() < 0.12:
        ops.append(r.choice("XXQ"))          # the caller gives the message up: drop / force_finish
    else:
        ops.append("A" if r.random() < 0.3 else "F")
    return ",".join(ops)


def gen_msg(r, thorough, allow_big):
    hv = r.choice([0, 1, 2, 3, 4, 0, 1, 5, 0, 1, 2, 3, 4, 0, 1, 6])
    sizes = [0, 0, 1, 7, 100, 2000, 4400, 4544, 4600, 9000, 9088, 9200, 20000, 30000, 65536]
    if allow_big:
        sizes += [200000, 262144]
        if thorough:
            sizes += [1 << 20, 3 << 20, (4 << 20) - 1]
    pay = r.choice(sizes)
    if r.random() < 0.3:
        pay = max(0, pay + r.randrange(-40, 40))
    if allow_big and r.random() < (0.04 if thorough else 0.02):
        # multi-megabyte bodies in the ordinary stream too (gen_big_case makes the ones with long schedules)
        pay = r.choice([1 << 20, 2 << 20, 3 << 20]) + r.choice([0, 1, 4, 12345, r.randrange(0, 70000)])
    preset = "-"
    if r.random() < 0.3:
        preset = str(r.choice([1, 2, 0x01020304, 0xFFFFFFFF, 0x80000000, r.randrange(1, 1 << 32)]))
    mode = r.choice(["push", "parts"])
    return {
        "bo": r.choice("lB"), "hv": hv, "plen": r.choice(PLENS) if hv == 5 else 0,
        "flags": r.choice([0, 0, 1, 2, 3, 4, 7, 128, 255]), "preset": preset, "nfds": r.choice([0, 0, 1, 2, 3]),
        "pay": pay, "seed": r.randrange(1 << 16), "mode": mode, "off": r.choice([0, 0, 3, 8]) if mode == "parts" else 0,
        "script": gen_script(r, pay > 300000),
        "api": "wall" if r.random() < 0.12 else "ctx",
        "fill": 0,
    }


def gen_big_script(r, rounds):
    """a long schedule for a multi-megabyte message: `rounds` times (some non-blocking / 1 ms sends, sometimes a
    suspension and a resume, then the peer reads a part), so that many sendmsg calls START at positions far
    into the body (beyond 1 MiB, 2 MiB, ...); ended by the non-blocking write/drain loop (mostly), write_all,
    or by giving the message up"""
    ops = []
    for _ in range(rounds):
        k = r.random()
        if k < 0.45:
            ops.append("W")
        elif k < 0.70:
            ops += ["w"] * r.choice([1, 2, 3, 6])
        elif k < 0.80:
            ops.append("T")
        elif k < 0.90:
            ops += ["s", "r", r.choice("wW")]
        else:
            ops += ["w", "s", "d%d" % r.choice([100, 9088, 100000]), "r"]
        ops.append("d%d" % r.choice([2240, 9088, 20000, 100000, 100000, 1 << 20, 1 << 20]))
    k = r.random()
    ops.append("F" if k < 0.70 else "A" if k < 0.92 else r.choice("XQ"))
    return ",".join(ops)


def gen_big_case(r, i):
    """one message with a body of 1 MiB + k .. 4 MiB and a long schedule of short sends; the first two of a run
    are always 1 MiB + k and about 3 MiB on a shrunk send buffer, finished by the non-blocking loop. Judged by
    the property predicate (too large for the list-based model)."""
    m = gen_msg(r, False, False)
    k = r.choice([1, 7, 4097, 12345, r.randrange(1, 100000)])
    if i == 0:
        m["pay"] = (1 << 20) + k
    elif i == 1:
        m["pay"] = (3 << 20) + k
    else:
        m["pay"] = r.choice([(1 << 20) + k, (1 << 20) + k, (2 << 20) + k, (3 << 20) + k, (4 << 20) - 1, (1 << 20) - k, 1 << 20, 5 << 20])
    if m["hv"] == 6:
        m["hv"] = 1
    m["api"] = "ctx"
    m["fill"] = 0
    sndbuf = r.choice([4608, 8192, 16384, 40000]) if i < 2 else r.choice([0, 4608, 8192, 16384, 40000, 40000, 200000])
    m["script"] = gen_big_script(r, r.choice([40, 120, 300]))
    if i < 2:
        m["script"] = m["script"].rsplit(",", 1)[0] + ",F"
    msgs = [m]
    if r.random() < 0.5 and m["script"][-1] in "FA":
        msgs.append(gen_msg(r, False, False))         # the next message on the same connection must be intact
    return {"sndbuf": sndbuf, "pre": r.choice([0, 1, 5])}, msgs


def gen_long_header_case(r):
    """a header of more than 64 KiB (object path of 66..140 kB) on a shrunk send buffer: many sends end and start
    inside the header"""
    m = gen_msg(r, False, False)
    m["hv"] = 5
    m["plen"] = r.choice([65500, 66000, 70000, 100000, 131100, 140000])
    m["pay"] = r.choice([0, 7, 2000, 9000, 70000])
    m["api"] = "ctx"
    m["fill"] = 0
    ops = []
    for _ in range(r.choice([10, 25, 60])):
        ops += r.choice([["w"], ["w"], ["w", "w"], ["W"], ["T"], ["s", "r"], ["w", "s", "d2240", "r"]])
        ops.append("d%d" % r.choice([1, 2240, 4544, 9088, 20000]))
    ops.append(r.choice("FFFAAXQ"))
    m["script"] = ",".join(ops)
    return {"sndbuf": r.choice([4608, 4608, 8192, 16384, 40000]), "pre": r.choice([0, 3])}, [m, gen_msg(r, False, False)] if ops[-1] in "FA" else [m]


def gen_refused_start(r, m):
    """the socket is full when the message starts: the first sendmsg is refused at zero bytes; the caller
    gives up (drops the context / force_finish) or carries on"""
    m["fill"] = 1
    m["api"] = "ctx"
    first = r.choice(["w", "W", "T", "w,w", "W,s,r"])
    then = r.choice(["X", "X", "Q", "d100000,F", "s,d100000,r,A", "d2240,w,X", "d9088,w,Q"])
    m["script"] = first + "," + then
    return m


def msg_str(m):
    return ("api=wall " if m.get("api") == "wall" else "") + ("fill=1 " if m.get("fill") else "") + " ".join("%s=%s" % (k, m[k]) for k in ("bo", "hv", "plen", "flags", "preset", "nfds", "pay", "seed", "mode", "off", "script"))


def gen_case(r, thorough):
    nm = r.choice([1, 1, 2, 3])
    msgs = [gen_msg(r, thorough, allow_big=(i == 0)) for i in range(nm)]
    for i in range(nm - 1):
        if r.random() < 0.12:
            gen_refused_start(r, msgs[i])
    if nm >= 2 and r.random() < 0.08:
        msgs[0]["hv"] = 6                     # a refused message, then a good one on the same connection
    head = {"sndbuf": r.choice([0, 4608, 4608, 4608, 6000, 8192, 16384, 40000]), "pre": r.choice([0, 0, 1, 5, 40])}
    return head, msgs


def case_line(head, msgs):
    return "case sndbuf=%d pre=%d | " % (head["sndbuf"], head["pre"]) + " | ".join(msg_str(m) for m in msgs)


def parse_kv(s):
    d = {}
    for t in s.split(" "):
        if "=" in t:
            k, v = t.split("=", 1)
            d[k] = v
    return d


def parse_case_line(line):
    parts = [p.strip() for p in line.split("|")]
    head = parse_kv(parts[0])
    msgs = [parse_kv(p) for p in parts[1:]]
    for m in msgs:
        for k in ("hv", "plen", "flags", "nfds", "pay", "seed", "off"):
            m[k] = int(m[k])
        m["fill"] = int(m.get("fill", 0))
    return {"sndbuf": int(head["sndbuf"]), "pre": int(head["pre"])}, msgs


# ------------------------------------------------------------------ reading the harness log

def parse_log(log):
    """[(op, arg, acc)] from 'w:12@12,w:E@12,d:100:0@12,...'"""
    out = []
    if log == "-":
        return out
    for e in log.split(","):
        body, acc = e.rsplit("@", 1)
        out.append((body, int(acc)))
    return out


def u32_at(b, off, bo):
    return int.from_bytes(b[off:off + 4], "little" if bo == "l" else "big")


def predicate(head, m, res, expected_serial):
    """the property evaluated on the implementation's own output; returns list of violated clauses"""
    bad = []
    if m["hv"] == 6:
        if res.get("senderr") != "1":
            bad.append("a message with an illegal member name was accepted by send_message")
        if int(res.get("peer_len", "0")) != 0:
            bad.append("%s bytes reached the peer for a message that send_message refused" % res.get("peer_len"))
        return bad
    if res.get("senderr") != "0":
        return ["send_message failed on a valid message"]
    abandoned = res.get("abandoned") == "1"
    total = int(res["total"])
    hdr = bytes.fromhex(res["hdr"]) if res["hdr"] != "-" else b""
    bodylen = int(res["bodylen"])
    if total != len(hdr) + bodylen:
        bad.append("bytes_total() = %d is not header %d + body %d" % (total, len(hdr), bodylen))
    # bytes at the peer == header ++ body, exactly once, nothing after
    if abandoned:
        # the caller gave the message up: what is out is a prefix of header ++ body of the accepted length, no more
        last_acc = ([a for _, a in parse_log(res["log"])] or [0])[-1]
        if res["mismatch"] != "-" or int(res["peer_len"]) != last_acc or int(res["peer_len"]) > len(hdr) + bodylen:
            bad.append("bytes at the peer for an abandoned message are not the accepted prefix of header ++ body (peer_len=%s accepted=%d first mismatch at %s)"
                       % (res["peer_len"], last_acc, res["mismatch"]))
    elif res["mismatch"] != "-" or int(res["peer_len"]) != len(hdr) + bodylen or int(res["extra"]) != 0:
        bad.append("bytes at the peer are not header ++ body exactly once (peer_len=%s expected=%d first mismatch at %s, extra=%s)"
                   % (res["peer_len"], len(hdr) + bodylen, res["mismatch"], res["extra"]))
    # the header the peer reads frames exactly this message: byte order flag, type, flags, version 1, body length,
    # length of the field array, zero padding up to a multiple of 8
    if len(hdr) >= 16:
        flag = chr(hdr[0])
        if flag != m["bo"]:
            bad.append("byte order flag %r for a %s message" % (flag, m["bo"]))
        else:
            flen = u32_at(hdr, 12, flag)
            if hdr[1] != TYP_OF_HV[m["hv"]] or hdr[2] != m["flags"] or hdr[3] != 1:
                bad.append("header type/flags/version bytes are %s" % list(hdr[1:4]))
            if u32_at(hdr, 4, flag) != bodylen:
                bad.append("the header announces a body of %d bytes, the body has %d" % (u32_at(hdr, 4, flag), bodylen))
            if len(hdr) != (16 + flen + 7) // 8 * 8 or any(hdr[16 + flen:]):
                bad.append("header is %d bytes for a field array of %d bytes (must be padded with zeros to a multiple of 8)" % (len(hdr), flen))
    else:
        bad.append("header shorter than 16 bytes")
    # descriptors exactly once, in order
    want = ".".join(str(i) for i in range(m["nfds"])) if m["nfds"] else "-"
    if abandoned and int(res["peer_len"]) == 0:
        want = "-"                        # nothing went out, so no descriptor either
    if res["fds"] != want or res["ctrunc"] != "0":
        bad.append("descriptors at the peer are %s, sent were %s (each exactly once expected)" % (res["fds"], want))
    # per call accounting and completion only at the end
    prev = 0
    completed_at = None
    for i, (body, acc) in enumerate(parse_log(res["log"])):
        delta = acc - prev
        prev = acc
        if body.startswith("w:") and not body.startswith("w:E") and not body.startswith("w:X"):
            k = int(body[2:].rstrip("!"))
            if k != delta:
                bad.append("write_once returned %d but %d bytes reached the peer" % (k, delta))
            if body.endswith("!"):
                completed_at = (i, acc)
            if (acc == total) != body.endswith("!") and k > 0:
                bad.append("all_bytes_written() is %s with %d of %d bytes written" % (body.endswith("!"), acc, total))
        elif body in ("w:E", "s", "r", "-", "X:ok", "X:panic", "Q") or body.startswith("d:"):
            if delta != 0:
                bad.append("%d bytes reached the peer during '%s'" % (delta, body))
        elif body.endswith(":ok"):
            completed_at = (i, acc)
        if completed_at and completed_at[0] == i and acc != total:
            bad.append("completion reported with %d of %d bytes written" % (acc, total))
    if abandoned:
        if completed_at is not None or res["serial"] != "-":
            bad.append("completion was reported for a message the caller gave up")
        return bad
    if completed_at is None:
        bad.append("the send never completed")
    # serial: reported == transmitted (bytes 8..12 in the byte order given by byte 0) == preset / expected
    peer_hdr = bytes.fromhex(res["peer_hdr"]) if res["peer_hdr"] != "-" else b""
    if res["serial"] == "-":
        bad.append("no serial reported")
    elif len(peer_hdr) >= 12:
        flag = chr(peer_hdr[0])
        if flag not in "lB":
            bad.append("byte order flag on the wire is %r" % flag)
        else:
            ws = u32_at(peer_hdr, 8, flag)
            if ws != int(res["serial"]):
                bad.append("reported serial %s but the header on the wire carries %d" % (res["serial"], ws))
        if m["preset"] != "-" and res["serial"] != m["preset"]:
            bad.append("preset serial %s was sent as %s" % (m["preset"], res["serial"]))
        if m["preset"] == "-" and expected_serial is not None and int(res["serial"]) != expected_serial:
            bad.append("expected the next fresh serial %d, got %s" % (expected_serial, res["serial"]))
    return bad


def model_calls(res):
    """harness log -> model call list"""
    calls = []
    prev = 0
    for body, acc in parse_log(res["log"]):
        delta = acc - prev
        prev = acc
        if body == "-" or body.startswith("d:"):
            continue
        if body in ("X:ok", "X:panic"):
            calls.append("X")
        elif body == "Q":
            calls.append("Q")
        elif body == "w:E":
            calls.append("oE")
        elif body.startswith("w:X") or ":X" in body:
            return None
        elif body.startswith("w:"):
            calls.append("o%d" % int(body[2:].rstrip("!")))
        elif body in ("s", "r"):
            calls.append(body)
        elif body.endswith(":ok"):
            calls.append("Wa%d" % delta)
        elif body.endswith(":E"):
            calls.append("W" + ("a%d," % delta if delta > 0 else "") + "e")
        else:
            return None
    return calls


def impl_trace(res):
    """the harness log in the model's trace vocabulary"""
    out = []
    for body, acc in parse_log(res["log"]):
        if body == "-" or body.startswith("d:"):
            continue
        if body.startswith("w:"):
            out.append("%s@%d" % (body.rstrip("!"), acc))
        elif body in ("s", "r", "X:ok", "X:panic", "Q"):
            out.append("%s@%d" % (body, acc))
        elif body.endswith(":ok"):
            out.append("W:ok@%d" % acc)
        elif body.endswith(":E"):
            out.append("W:E@%d" % acc)
        else:
            out.append("%s@%d" % (body, acc))
    return ",".join(out) if out else "-"


def model_line(head, msgs, results):
    parts = ["case pre=%d" % head["pre"]]
    for m, res in zip(msgs, results):
        hdr = bytes.fromhex(res["hdr"]) if res.get("hdr", "-") != "-" else b""
        plen_ = len(res["prefix"]) // 2 if res["prefix"] != "-" else 0
        if m["hv"] == 6:
            # by construction a header field of this message fails validation: the model's field marshaller says so
            parts.append(("api=wall " if m.get("api") == "wall" else "") + "bo=%s typ=1 flags=%d preset=%s fields=none prefix=%s pay=%d seed=%d nfds=%d calls=" % (
                m["bo"], m["flags"], m["preset"], res["prefix"], int(res["bodylen"]) - plen_, m["seed"], m["nfds"]))
            continue
        if len(hdr) < 16:
            return None
        flen = u32_at(hdr, 12, m["bo"])
        fields = hdr[16:16 + flen]
        calls = model_calls(res)
        if calls is None:
            return None
        parts.append(("api=wall " if m.get("api") == "wall" else "") + "bo=%s typ=%d flags=%d preset=%s fields=%s prefix=%s pay=%d seed=%d nfds=%d calls=%s" % (
            m["bo"], TYP_OF_HV[m["hv"]], m["flags"], m["preset"], fields.hex() if fields else "-", res["prefix"],
            int(res["bodylen"]) - (len(res["prefix"]) // 2 if res["prefix"] != "-" else 0), m["seed"], m["nfds"], ";".join(calls)))
    return " | ".join(parts)


def compare_model(m, res, mod):
    """differences between implementation and model on the observables of the property"""
    diffs = []
    if mod.get("senderr") != "0" or res.get("senderr") != "0":
        if mod.get("senderr") == res.get("senderr") == "1":
            return []
        return ["send_message: impl senderr=%s model senderr=%s" % (res.get("senderr"), mod.get("senderr"))]
    abandoned = res.get("abandoned") == "1"
    pairs = [("serial", res["serial"], mod["serial"]), ("total", res["total"], mod["total"]),
             ("header (independent marshal call)", res["hdr"], mod["hdr"]), ("header at the peer", res["peer_hdr"], mod["hdr"]),
             ("body crc", res["bodycrc"], mod["bodycrc"]), ("per-call results and positions", impl_trace(res), mod["trace"]),
             ("wire length", res["peer_len"], mod["wire_len"]), ("wire crc", res["peer_crc"], mod["wire_crc"]),
             ("descriptors", res["fds"], mod["fds"])]
    if abandoned:
        pairs = [p_ for p_ in pairs if p_[0] != "header at the peer"]
        hl = min(len(res["peer_hdr"]), len(mod["hdr"])) if res["peer_hdr"] != "-" else 0
        pairs.append(("header bytes at the peer", res["peer_hdr"] if hl else "-", mod["hdr"][:hl] if hl else "-"))
    else:
        pairs.append(("wire serial", res["serial"], mod["wire_serial"]))
    for what, a, b in pairs:
        if a != b:
            diffs.append("%s: impl %s model %s" % (what, a[:200], b[:200]))
    if mod["completed"] != ("0" if abandoned else "1"):
        diffs.append("model: completed=%s" % mod["completed"])
    if mod["closed"] != "1":
        diffs.append("model: closed form (accepted_sum/run_send) differs from the call-by-call replay")
    return diffs


# ------------------------------------------------------------------ main

def evaluate(ctx, exe, drv, cases, model_max, timeout):
    lines = [case_line(h, ms) for h, ms in cases]
    outs = run_sharded(exe, lines, timeout=timeout)
    # A case that exceeded the per-case deadline may only have been starved of CPU: it counts as a hang only
    # when it also exceeds a much longer deadline running alone. Once two hangs are confirmed the other
    # candidates are not re-run (each costs the long deadline); they are counted, not reported.
    long_deadline = 300 if ctx.tier == "thorough" else 120
    confirmed = 0
    for i, (o, _) in enumerate(outs):
        if o != "HANG":
            continue
        if confirmed >= 2:
            outs[i] = ("HANG-NOT-RERUN", "")
            continue
        try:
            rc, o2, e2 = run_proc(exe, [lines[i]], long_deadline + 60, env={"VERIF_C10_DEADLINE_S": str(long_deadline)})
        except subprocess.TimeoutExpired:
            o2 = ["HANG"]
        if o2 and o2[0] != "HANG":
            outs[i] = (o2[0], "")
            ctx.count("deadline_exceeded_but_finished_when_run_alone")
        else:
            confirmed += 1
    mlines, midx = [], []
    parsed = []
    for ci, ((head, msgs), (out, err), line) in enumerate(zip(cases, outs, lines)):
        if out is None:
            ctx.tie_broken("harness c10 crashed, hung or produced short output", "%s\n%s" % (line[:400], err))
            parsed.append(None)
            continue
        if out == "HANG-NOT-RERUN":
            ctx.count("deadline_exceeded_not_rerun(two hangs already confirmed)")
            parsed.append(None)
            continue
        if out == "HANG":
            ctx.violation("the send does not terminate although the peer keeps reading (no completion, no error)", {"case": line, "impl": "HANG"})
            parsed.append(None)
            continue
        if out.startswith("PANIC"):
            ctx.violation("the send path panicked: " + out[:200], {"case": line, "impl": out[:2000]})
            parsed.append(None)
            continue
        parts = [p.strip() for p in out.split("|")]
        pre = parts[0].split("=", 1)[1]
        results = [parse_kv(p) for p in parts[1:]]
        parsed.append((pre, results))
        if len(results) != len(msgs):
            ctx.tie_broken("harness c10: wrong number of results", out[:500])
            continue
        # ---- property predicate on the implementation's own output
        want_pre = ",".join(str(i + 1) for i in range(head["pre"])) if head["pre"] else "-"
        viol = []
        if pre != want_pre:
            viol.append("alloc_serial returned %s, expected %s" % (pre, want_pre))
        nxt = head["pre"] + 1
        for m, res in zip(msgs, results):
            viol += predicate(head, m, res, nxt)
            if m["preset"] == "-":
                nxt += 1
        errs = [e for res in results for e, _ in parse_log(res.get("log", "-")) if ":X" in e]
        if errs:
            ctx.tie_broken("harness c10: unexpected I/O error from the socket", "%s\n%s" % (line[:400], errs[:3]))
        if viol:
            ctx.violation("; ".join(viol[:4]), {"case": line, "impl": out[:4000], "violated": viol})
        # ---- bookkeeping
        for m, res in zip(msgs, results):
            log = parse_log(res.get("log", "-"))
            writes = [b for b, _ in log if b.startswith("w:") or b[:2] in ("W:", "T:", "F:", "A:")]
            partial = sum(1 for b, a in log if b.startswith("w:") and not b.endswith("!") and b[2:3].isdigit())
            eagain = sum(1 for b, _ in log if b.endswith(":E"))
            susp = sum(1 for b, a in log if b == "s" and 0 < a < int(res.get("total", "0") or 0))
            hlen = len(res.get("hdr", "")) // 2
            inhdr = sum(1 for b, a in log if 0 < a < hlen)
            nontrivial = partial + eagain + susp > 0
            ctx.case((msg_str(m), res.get("log")), nontrivial=nontrivial,
                     sample={"msg": msg_str(m)[:160], "log": res.get("log", "")[:200], "fds": res.get("fds")} if nontrivial and len(log) > 5 else None)
            tot = int(res.get("total", "0") or 0)
            ctx.count("size:" + ("<=256" if tot <= 256 else "<=8K" if tot <= 8192 else "<=64K" if tot <= 65536 else "<=512K" if tot <= 524288 else "<=1M" if tot <= (1 << 20) else ">1M"))
            if hlen > 65536:
                ctx.count("header_longer_than_64K")
                if tot <= max(model_max, MODEL_MAX_THOROUGH):
                    ctx.count("header_longer_than_64K:replayed_through_the_model")
                ctx.count("header_longer_than_64K:calls_starting_inside_the_header_beyond_64K", sum(1 for b, a in log if 65536 <= a < hlen and b not in ("-",) and not b.startswith("d:")))
            # sends that start far into the body: positions (before a send call) beyond 1 MiB of body
            # (a non-blocking sendmsg accepts at most one socket buffer, < 256 KiB here: a non-blocking loop W/F that
            # ends beyond 1 MiB + 256 KiB has made a call that started beyond 1 MiB)
            starts = [a for (b, a), (b2, a2) in zip([("", 0)] + log, log)
                      if a < tot and ((a - hlen >= (1 << 20) and (b2.startswith("w:") or b2[:2] in ("W:", "T:", "F:", "A:")))
                                      or (b2[:2] in ("W:", "F:") and a2 - hlen >= (1 << 20) + (1 << 18)))]
            if starts:
                ctx.count("body>1M:messages_with_a_send_call_starting_beyond_1MiB_of_body")
                ctx.count("body>1M:send_calls_starting_beyond_1MiB_of_body", len(starts))
                if any(b == "r" and a - hlen >= (1 << 20) for b, a in log):
                    ctx.count("body>1M:resumed_beyond_1MiB_of_body")
            ctx.count("fds:%d" % m["nfds"])
            ctx.count("partial_writes", partial)
            ctx.count("eagain_results", eagain)
            ctx.count("suspended_at_partial_position", susp)
            ctx.count("positions_inside_header", inhdr)
            ctx.count("write_calls", len(writes))
            ctx.count("mode:" + m["mode"])
            ctx.count("api:send_message_write_all" if m.get("api") == "wall" else "api:send_message+context")
            if res.get("abandoned") == "1":
                last_acc = ([a for _, a in log] or [0])[-1]
                ctx.count("abandoned:at_zero_bytes" if last_acc == 0 else "abandoned:after_partial_write")
                ctx.count("abandoned:" + ("force_finish" if any(b == "Q" for b, _ in log) else "drop_ok" if any(b == "X:ok" for b, _ in log) else "drop_panics"))
            if m["hv"] == 6:
                ctx.count("refused_by_send_message")
            if m.get("fill"):
                ctx.count("socket_full_at_start")
        # ---- model replay
        # messages with a header beyond 64 KiB are replayed through the model up to the thorough tier's limit in
        # both tiers (a dozen per quick run, well under a second each)
        limit = max(model_max, MODEL_MAX_THOROUGH) if any(m["hv"] == 5 and m["plen"] > 60000 for m in msgs) else model_max
        if all(int(res.get("total", "0") or 0) <= limit for res in results):
            ml = model_line(head, msgs, results)
            if ml is not None:
                mlines.append(ml)
                midx.append(ci)
            else:
                ctx.count("model_skipped:unexpected_io_result")
        else:
            ctx.count("model_skipped:too_large(property predicate only)")
    mouts = run_sharded(drv, mlines, timeout=timeout, big_stack=True)
    for ci, ml, (mo, err) in zip(midx, mlines, mouts):
        head, msgs = cases[ci]
        pre, results = parsed[ci]
        if mo is None:
            ctx.tie_broken("extracted model driver c10 crashed", "%s\n%s" % (ml[:400], err))
            continue
        mparts = [p.strip() for p in mo.split("|")]
        mres = [parse_kv(p) for p in mparts[1:]]
        diffs = []
        if mparts[0].split("=", 1)[1] != pre:
            diffs.append("alloc_serial: impl %s model %s" % (pre, mparts[0]))
        for m, res, mod in zip(msgs, results, mres):
            diffs += compare_model(m, res, mod)
        ctx.count("model_replayed", len(msgs))
        if diffs:
            ctx.disagreements_checked += 1
            # the predicate has already been evaluated on this output above; a violation was recorded there
            # if the property fails. Otherwise the model no longer describes the code.
            nxt = head["pre"] + 1
            viol = []
            for m, res in zip(msgs, results):
                viol += predicate(head, m, res, nxt)
                if m["preset"] == "-":
                    nxt += 1
            if not viol:
                ctx.tie_broken("correspondence: model and implementation differ on an observable although the property predicate holds on the implementation's output",
                               "case: %s\n%s" % (lines[ci][:600], "\n".join(diffs[:6])))


def py_payload(n, seed):
    out = bytearray(n)
    for i in range(n):
        x = (i * 2654435761 + seed * 40503) & 0xFFFFFFFF
        out[i] = ((x >> 11) ^ (x >> 23)) & 0xFF
    return bytes(out)


def coq_list(bs):
    return "[" + "; ".join(str(b) for b in bs) + "]"


def coq_crosscheck(ctx, exe, r, count):
    """A few small single-message cases evaluated by coqc itself (vm_compute on Conn/Send.v run_send with the
    recorded schedule) and compared byte for byte with what the peer received: guards the extraction and the
    OCaml driver, which all other cases go through."""
    import re
    import zlib
    cases = []
    for _ in range(count):
        m = gen_msg(r, False, False)
        m["pay"] = r.choice([0, 1, 5, 40, 200])
        m["hv"] = r.choice([0, 2, 3])
        m["plen"] = 0
        m["script"] = gen_script(r, False, abandon=False)
        m["fill"] = 0
        cases.append(({"sndbuf": 4608, "pre": r.choice([0, 2])}, [m]))
    lines = [case_line(h, ms) for h, ms in cases]
    outs = run_sharded(exe, lines, timeout=120)
    terms, expect = [], []
    for (head, msgs), (out, err), line in zip(cases, outs, lines):
        if out is None or out.startswith("PANIC") or out == "HANG":
            continue                      # judged by the main stream
        m = msgs[0]
        res = parse_kv(out.split("|")[1].strip())
        if res.get("senderr") != "0" or res["mismatch"] != "-":
            continue
        hdr = bytes.fromhex(res["hdr"])
        prefix = bytes.fromhex(res["prefix"]) if res["prefix"] != "-" else b""
        body = prefix + py_payload(int(res["bodylen"]) - len(prefix), m["seed"])
        if zlib.crc32(body) != int(res["bodycrc"]):
            ctx.tie_broken("correspondence: the payload formula of the check differs from the harness", line[:300])
            continue
        flen = u32_at(hdr, 12, m["bo"])
        sched = []
        prev = 0
        for b, acc in parse_log(res["log"]):
            delta, prev = acc - prev, acc
            if b == "w:E":
                sched.append("Again")
            elif b.startswith("w:") and b[2:3].isdigit():
                sched.append("Accept %d" % int(b[2:].rstrip("!")))
            elif b == "s":
                sched.append("Suspend")
            elif b == "r":
                sched.append("Resume")
            elif b.endswith(":ok") or b.endswith(":E"):
                if delta > 0:
                    sched.append("Accept %d" % delta)
                if b.endswith(":E"):
                    sched.append("Again")
        typ = {1: "MCall", 2: "MReply", 3: "MError", 4: "MSignal"}[TYP_OF_HV[m["hv"]]]
        preset = "None" if m["preset"] == "-" else "Some %s" % m["preset"]
        terms.append(
            "Eval vm_compute in (let m := {| msg_typ := %s; msg_flags := %d; msg_dyn := dh (%s); msg_bo := %s; msg_body := %s; msg_raw_fds := %s |} in\n"
            "  match send_message (fun _ => Some %s) (pre_allocs %d conn_init) m with\n"
            "  | Ok (_, Some x) => let r := run_send x world0 [%s] in\n"
            "      Some (wire (r_world r), fds_delivered (r_world r), bytes_sent (r_state r), r_completed r, r_reported r, r_panicked r)\n"
            "  | _ => None end)." % (typ, m["flags"], preset, "BE" if m["bo"] == "B" else "LE", coq_list(body),
                                     coq_list(range(m["nfds"])), coq_list(hdr[16:16 + flen]), head["pre"], "; ".join(sched)))
        expect.append((line, hdr + body, list(range(m["nfds"])), int(res["serial"])))
    if not terms:
        return
    v = ("From RB Require Import Base.Prelude Conn.Serial Conn.SerialProofs Conn.Send Conn.SendProofs.\n"
         "Definition dh (p : option N) : dynheader := {| dh_interface := None; dh_member := None; dh_object := None; dh_destination := None; dh_serial := p; dh_sender := None; dh_signature := None; dh_error_name := None; dh_response_serial := None; dh_num_fds := None |}.\n"
         "Fixpoint pre_allocs (n : nat) (c : send_conn) : send_conn := match n with O => c | S k => match alloc_serial c with Ok (_, c') => pre_allocs k c' | _ => c end end.\n"
         + "\n".join(terms) + "\n")
    out = vlib.coq_eval("c10_cross", v)
    blocks = [b for b in re.split(r"^\s*= ", out, flags=re.M)[1:]]
    if len(blocks) != len(terms):
        ctx.tie_broken("in-Coq evaluation printed %d results for %d terms" % (len(blocks), len(terms)), out[-1500:])
        return
    for blk, (line, wire, fds, serial) in zip(blocks, expect):
        txt = " ".join(blk.split())
        mm = re.match(r"Some \(\s*(\[[^\]]*\]),\s*(\[[^\]]*\]),\s*(\d+),\s*(true|false),\s*(Some (\d+)|None),\s*(true|false)\s*\)", txt)
        ok = False
        if mm:
            nums = lambda t: [int(x) for x in re.findall(r"\d+", t)]
            ok = (nums(mm.group(1)) == list(wire) and nums(mm.group(2)) == fds and int(mm.group(3)) == len(wire)
                  and mm.group(4) == "true" and mm.group(6) == str(serial) and mm.group(7) == "false")
        ctx.count("in_coq_vm_compute_cases")
        ctx.case(("coq", line), nontrivial=False)
        if not ok:
            ctx.disagreements_checked += 1
            ctx.tie_broken("correspondence: Coq's own evaluation of the model (vm_compute run_send) differs from the bytes/descriptors/serial observed at the peer",
                           "case: %s\ncoq: %s" % (line[:400], txt[:600]))


def run(ctx):
    thorough = ctx.tier == "thorough"
    ctx.rule = ("cases = 1-3 messages sent one after the other on one real connection (AF_UNIX socket pair, SO_SNDBUF of the "
                "sender shrunk to 4608..40000 or default); each message: byte order, 6 header shapes (incl. a header longer "
                "than the socket buffer), flags, preset/fresh serial, 0-3 real descriptors (pipes, compared by st_dev/st_ino), "
                "body of 0 B .. %s (ordinary stream: mostly up to 256 KiB in quick, one in fifty 1-3 MiB + k) built by push_param or from_parts (with buffer offset), and a random script of "
                "write_once(Nonblock) / peer drains / into_progress / resume / write(Nonblock) / write(1ms) ended by a "
                "write loop or write_all, or (about one message in eight) sent through the public wrapper "
                "send_message_write_all while a thread drains the peer; some messages are given up (context dropped "
                "or force_finish, at zero bytes - with the socket filled beforehand so that the first sendmsg is refused - or "
                "after a partial write, where Drop panics by design) or are refused by send_message while the header is "
                "marshalled (illegal member name), and the next message on the same connection must be intact; the kernel decides every accepted size, the harness records it and the model "
                "replays it. A case is non-trivial when it saw a short write, EAGAIN or a suspension at a partial position; "
                "distinct = distinct (message, observed schedule). Messages whose header + body exceed %d KiB are not replayed "
                "through the extracted model (list-based, too slow): they are judged by the property predicate on the "
                "implementation's output only - the evidence counts them as model_skipped / model_replayed; every run adds one "
                "fixed 4 MiB message with descriptors, %d messages with a body of 1 MiB + k .. 5 MiB (the first two always 1 MiB + k "
                "and 3 MiB + k on a shrunk send buffer, finished by the non-blocking write/drain loop) under schedules of 40-300 "
                "rounds of non-blocking / 1 ms sends, suspensions, resumes and partial drains, so that many sendmsg calls start "
                "beyond 1, 2, 3 MiB of body (counters body>1M:*), and %d messages whose header is longer than 64 KiB (object path "
                "of 65.5-140 kB) with sends that end inside the header (counters header_longer_than_64K*; these are replayed through the model up to %d KiB in both tiers)") % ("5 MiB", (MODEL_MAX_THOROUGH if thorough else MODEL_MAX_QUICK) // 1024, 40 if thorough else 7, 40 if thorough else 8, MODEL_MAX_THOROUGH // 1024)
    ctx.trusted = ["Coq 8.16.1 kernel (coqc), no native_compute", "extraction with ExtrOcamlBasic only, ocamlfind ocamlopt 4.13.1",
                   "ocaml/c10/driver.ml and harness/src/bin/c10.rs (I/O wrappers; the driver replays the harness's API calls on the model)",
                   "Linux AF_UNIX stream socket semantics as modelled by Conn/Send.v sendmsg: accepted bytes are a prefix of the iov, the "
                   "return value is their count, SCM_RIGHTS travel iff at least one byte was accepted; FIONREAD on the peer = bytes accepted and unread"]
    ctx.assumptions = ["the socket option calls around sendmsg (set_write_timeout, set_nonblocking) succeed on the connection's own descriptor "
                       "(if restoring them failed after a successful sendmsg the position would not advance)",
                       "resume is called with the same connection and message and no other send in between (documented contract)",
                       "the header field array is produced by wire::marshal (C05); the model takes it as a parameter",
                       "the real kernel only produces accepted sizes in socket-buffer chunks; positions inside the header are reached with long headers only; the theorem covers every size",
                       "usize is 64 bit"]
    ctx.try_proof()
    exe = vlib.harness_build(["c10"])["c10"]
    os.environ["VERIF_C10_DEADLINE_S"] = "90" if thorough else "20"     # per case; normal cases take milliseconds
    vlib.coq_make(["Conn/SendProofs.vo"])
    drv = vlib.ocaml_build("c10")

    cases = []
    for f in sorted(glob.glob(os.path.join(vlib.VERIF, "corpus", "C10", "*.case"))):
        for line in open(f):
            line = line.strip()
            if line and not line.startswith("#"):
                cases.append(parse_case_line(line))
    ctx.count("corpus", len(cases))
    r = ctx.sub_rng("gen")
    n = 2500 if thorough else 450
    for _ in range(n):
        cases.append(gen_case(r, thorough))
    # the quantifier says multi-megabyte / any header: bodies of 1 MiB + k .. 5 MiB with long schedules of short
    # sends (a sendmsg that STARTS beyond 1 MiB needs a non-blocking loop: one blocking write_all sends the
    # whole rest in one call), and headers longer than 64 KiB with sends that end inside the header
    rb = ctx.sub_rng("big")
    for i in range(40 if thorough else 7):
        cases.append(gen_big_case(rb, i))
    rh = ctx.sub_rng("longheader")
    for _ in range(40 if thorough else 8):
        cases.append(gen_long_header_case(rh))
    # the quantifier says multi-megabyte: one 4 MiB message in every run (about 0.1 s), suspended and resumed on the way
    cases.append(parse_case_line("case sndbuf=40000 pre=1 | bo=B hv=1 plen=0 flags=1 preset=- nfds=3 pay=4194304 seed=4242 mode=push off=0 "
                                 "script=w,d100000,w,W,s,d1048576,r,w,T,d1048576,s,r,A | bo=l hv=0 plen=0 flags=0 preset=- nfds=1 pay=7 seed=1 mode=parts off=0 script=w"))
    tmp = private_scratch()
    try:
        evaluate(ctx, exe, drv, cases, MODEL_MAX_THOROUGH if thorough else MODEL_MAX_QUICK, timeout=1800 if thorough else 240)
        coq_crosscheck(ctx, exe, ctx.sub_rng("coq"), 24 if thorough else 6)
    finally:
        shutil.rmtree(tmp, ignore_errors=True)
    ctx.exhaustive = False


def replay(ctx, body):
    data = body["data"]
    exe = vlib.harness_build(["c10"])["c10"]
    line = data["case"]
    head, msgs = parse_case_line(line)
    failed = 0
    tmp = private_scratch()
    import atexit
    atexit.register(shutil.rmtree, tmp, True)
    for attempt in range(5):          # the kernel decides the schedule; repeat a few times
        rc, out, err = run_proc(exe, [line], 240)
        if not out:
            print("harness failed:", err[-500:])
            return 2
        if out[0].startswith("PANIC") or out[0] == "HANG":
            print("REPRODUCED:", out[0][:300])
            return 1
        parts = [p.strip() for p in out[0].split("|")]
        results = [parse_kv(p) for p in parts[1:]]
        nxt = head["pre"] + 1
        viol = []
        for m, res in zip(msgs, results):
            viol += predicate(head, m, res, nxt)
            if m["preset"] == "-":
                nxt += 1
        if viol:
            print("case:", line[:600])
            print("impl:", out[0][:1500])
            print("REPRODUCED:", "; ".join(viol[:5]))
            failed = 1
            break
    if not failed:
        print("not reproduced (the property predicate holds on the implementation's output in 5 runs)")
    return failed
